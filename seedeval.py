#!/usr/bin/env python3
"""seedeval.py <ID> <N> [tier]: validates an independently produced breaking change
(/tmp/seed_out/<ID>/patchN.diff + demo) in a scratch worktree of /repo's HEAD (existing tests, demonstration with and without
the change), then runs ./vcheck <ID> <tier> against that worktree with the change
applied (VERIF_REPO=<worktree>; /repo itself is never touched) and removes the
worktree. Prints a JSON record."""
import json, os, subprocess, sys, shutil, time, glob

ENV = dict(os.environ, GOFLAGS="-mod=mod", GOPROXY="off", GOSUMDB="off", GOTOOLCHAIN="local")


def sh(cmd, cwd=None, timeout=1800):
    try:
        r = subprocess.run(cmd, shell=True, cwd=cwd, env=ENV, capture_output=True, text=True, timeout=timeout)
        return r.returncode, r.stdout + r.stderr
    except subprocess.TimeoutExpired:
        return 124, "timeout"


def main():
    pid, n = sys.argv[1], sys.argv[2]
    tier = sys.argv[3] if len(sys.argv) > 3 else "quick"
    # a change is taken from the sub-agent's delivery directory or, once it has been kept, from /verif/seeded
    src = "/tmp/seed_out/%s" % pid
    patch = "%s/patch%s.diff" % (src, n)
    kept = "/verif/seeded/%s/%s" % (pid, n)
    if not os.path.exists(patch) and os.path.exists(kept + "/patch.diff"):
        src, patch = kept, kept + "/patch.diff"
    # /repo has moved on (fix: commits) since some changes were made: a hand-ported copy is used when present
    for reb in ("/tmp/seed_out/rebased/%s_%s.diff" % (pid, n), kept + "/patch.rebased.diff"):
        if os.path.exists(reb):
            patch = reb
            break
    rec = {"property": pid, "n": n, "tier": tier}
    wt = "/tmp/seedeval_%s_%s" % (pid, n)
    sh("git -C /repo worktree remove --force %s" % wt)
    shutil.rmtree(wt, ignore_errors=True)
    rc, out = sh("git -C /repo worktree add --detach %s HEAD" % wt)
    try:
        demo_go = "%s/demo%s_test.go" % (src, n)
        demo_sh = "%s/demo%s.sh" % (src, n)

        def run_demo():
            if os.path.exists(demo_go) and not os.path.exists(demo_sh):
                shutil.copy(demo_go, wt + "/lib/go/zz_seed_demo_test.go")
                rc, out = sh("go test -vet=off -count=1 -timeout 120s -run 'TestSeedDemo%s$' ." % n, cwd=wt + "/lib/go", timeout=300)
                os.remove(wt + "/lib/go/zz_seed_demo_test.go")
                return rc, out[-600:]
            if os.path.exists(demo_sh):
                return sh("bash %s %s" % (demo_sh, wt), cwd=src, timeout=300)
            return None, "no demo"
        rc0, out0 = run_demo()
        rec["demo_passes_without"] = rc0 == 0
        rc, out = sh("git apply %s" % patch, cwd=wt)
        rec["applies"] = rc == 0
        if rc != 0:
            rec["error"] = out[-300:]
            print(json.dumps(rec))
            return
        rc1, out1 = run_demo()
        rec["demo_fails_with_change"] = rc1 not in (0, None)
        rec["demo_output"] = out1[-300:]
        # the existing suite (twice for the NATS flake)
        ok = True
        for m in ["lib/go", "."]:
            for attempt in range(3):
                rc, out = sh("go test -vet=off -count=1 -timeout 10m ./...", cwd=os.path.join(wt, m), timeout=900)
                if rc == 0:
                    break
            if rc != 0:
                ok = False
                rec["suite_output"] = out[-400:]
        rec["tests_pass"] = ok
        # now the check, against the scratch worktree with the change applied (/repo is never touched)
        alt = "/tmp/verif_alt_%s_%s" % (pid, n)
        t0 = time.time()
        rc, out = sh("VERIF_REPO=%s VERIF_ALT_OUT=%s ./vcheck %s %s" % (wt, alt, pid, tier), cwd="/verif", timeout=7200)
        rec["check_exit"] = rc
        rec["check_wall_s"] = round(time.time() - t0, 1)
        rec["check_output"] = "\n".join(l for l in out.splitlines() if l.startswith(("VIOLATION", "  what", "OK", "INCONCLUSIVE", "  reason", "KNOWN")))[:1500]
        shutil.rmtree(alt, ignore_errors=True)
    finally:
        sh("git -C /repo worktree remove --force %s" % wt)
        shutil.rmtree(wt, ignore_errors=True)
    print(json.dumps(rec))


if __name__ == "__main__":
    main()
