#!/usr/bin/env python3
"""Regenerates MANIFEST.json from vspec.py (claimed checks) and NOT_APPLICABLE below."""
import json, os, sys
VERIF = os.path.dirname(os.path.abspath(__file__))
sys.path.insert(0, VERIF)
from vspec import SPECS, NOT_APPLICABLE, HOOK_COMMITS

ids = [json.loads(l)["id"] for l in open(os.path.join(VERIF, "properties.jsonl"))]
checks = []
for pid in ids:
    if pid not in SPECS or not SPECS[pid].get("claimed", True):
        continue
    sp = SPECS[pid]
    checks.append({
        "property_id": pid,
        "quick_cmd": "./vcheck %s quick" % pid,
        "thorough_cmd": "./vcheck %s thorough" % pid,
        "evidence_file": "/verif/evidence/%s.json" % pid,
        "replay_cmd_template": "./vcheck %s --replay {path}" % pid,
        "engine": "gose",
        "level_claimed": {"category": sp["level"], "text": sp["level_text"], "design_ref": sp.get("design_ref", "DESIGN.md §6 " + pid)},
        "level_note": sp["level_note"],
        "technique": sp.get("technique", "bounded symbolic execution of the real go/ssa, every branch / run-time check / assertion decided by z3; counterexamples replayed natively"),
    })
na = []
for pid in ids:
    if pid in [c["property_id"] for c in checks]:
        continue
    na.append({"property_id": pid, "reason": NOT_APPLICABLE.get(pid, "check not built yet (work in progress in this session)")})
m = {
    "version": 1,
    "setup_cmd": "cd /verif/engine && GOFLAGS=-mod=mod GOPROXY=off GOSUMDB=off GOTOOLCHAIN=local go build -o /verif/bin/gose .",
    "hooks": {
        "guard": "verif",
        "enable": "go build/test -tags verif (no hook is needed by the current checks: harnesses are injected with go/packages overlays and `go test -overlay`, /repo is never written)",
        "baseline_off_cmd": "for m in . lib/go; do (cd /repo/$m && GOFLAGS=-mod=mod GOPROXY=off GOSUMDB=off go test -json -vet=off -count=1 -timeout 25m ./...); done",
        "source_commits": HOOK_COMMITS,
        "add_only": True,
    },
    "engines": [{"name": "gose", "path": "/verif/engine", "serves_properties": [c["property_id"] for c in checks],
                 "kind_free_text": "symbolic executor for go/ssa (x/tools v0.29.0) written for this task: symbolic bit-vector scalars, per-byte symbolic strings/slices, decision-prefix re-execution DFS, thread scheduler with pre-emption bound, z3 4.8.12 over one incremental pipe per entry; native replay of counterexample vectors with go test -overlay"}],
    "checks": checks,
    "not_applicable": na,
    "notes": "Checks exit 0 (held within the stated bounds), 1 with VIOLATION lines (counterexample found by the solver and reproduced against the real code), or 2 with INCONCLUSIVE (solver unknown, unwinding bound hit, unsupported callee, unreached coverage label) which never happens on the unchanged tree for the registered bounds. See DESIGN.md.",
}
json.dump(m, open(os.path.join(VERIF, "MANIFEST.json"), "w"), indent=1)
print("claimed:", [c["property_id"] for c in checks])
print("not_applicable:", [x["property_id"] for x in na])
