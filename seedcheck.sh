#!/bin/bash
# seedcheck.sh <ID> <N> [tier]: applies the kept change seeded/<ID>/<N>/patch.diff in a scratch worktree of /repo's HEAD and
# runs ./vcheck <ID> <tier> against that worktree (VERIF_REPO); /repo is not touched. Prints the verdict lines.
# (seedeval.py / seedkeep.py additionally re-validate tests and demonstration.)
id=$1; n=$2; tier=${3:-quick}; prop=${4:-$id}
export GOFLAGS=-mod=mod GOPROXY=off GOSUMDB=off GOTOOLCHAIN=local
wt=/tmp/seedcheck_${id}_${n}; alt=/tmp/seedcheck_alt_${id}_${n}
git -C /repo worktree remove --force $wt >/dev/null 2>&1; rm -rf $wt $alt
git -C /repo worktree add --detach $wt HEAD >/dev/null 2>&1 || { echo "worktree failed"; exit 3; }
p=/verif/seeded/$id/$n/patch.diff; [ -f /verif/seeded/$id/$n/patch.rebased.diff ] && p=/verif/seeded/$id/$n/patch.rebased.diff
( cd $wt && git apply $p ) || { echo "patch does not apply"; git -C /repo worktree remove --force $wt; exit 3; }
s=$(date +%s)
( cd /verif && VERIF_REPO=$wt VERIF_ALT_OUT=$alt ./vcheck $prop $tier ) > /tmp/seedcheck_${id}_${n}.log 2>&1
rc=$?
grep -E "^(VIOLATION|  what|OK|INCONCLUSIVE|  reason|KNOWN)" /tmp/seedcheck_${id}_${n}.log | cut -c1-400 | head -12
echo "seedcheck $id/$n $prop $tier exit=$rc wall=$(( $(date +%s) - s ))s"
git -C /repo worktree remove --force $wt >/dev/null 2>&1; rm -rf $wt $alt
exit $rc
