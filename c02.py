"""C02: generated Go types encode and decode exactly what the IDL declares.

For every program of the catalogue the REAL compiler (built from /repo) emits
Go; gose executes the emitted Read and Write of every struct / union /
exception and every service args / result struct against a scripted and
recording TProtocol with symbolic field values. The oracle model (field ids,
wire types, requiredness, names) comes from idlmini.py, an independent reader of
the IDL text."""
import json, os, re, subprocess, time, hashlib, glob, concurrent.futures
import genpipe, idlmini

VERIF = os.path.dirname(os.path.abspath(__file__))
# evidence and replays of an evaluation run against a scratch tree (VERIF_REPO set) go to a scratch place
_ALT = os.environ.get("VERIF_REPO", "/repo") != "/repo"
EVIDENCE = os.path.join(os.environ.get("VERIF_ALT_OUT", "/tmp/verif_alt"), "evidence") if _ALT else os.path.join(VERIF, "evidence")
REPLAYS = os.path.join(os.environ.get("VERIF_ALT_OUT", "/tmp/verif_alt"), "replays") if _ALT else os.path.join(VERIF, "replays")
KIND = {"bool": "kBool", "i8": "kI8", "i16": "kI16", "i32": "kI32", "i64": "kI64", "double": "kDouble", "string": "kString", "binary": "kBinary"}


def go_type(t):
    k = t["k"]
    if k in KIND:
        return "&verifT{K: %s}" % KIND[k]
    if k == "enum":
        return "&verifT{K: kEnum}"
    if k == "struct":
        return "&verifT{K: kStruct, S: %s}" % json.dumps(t["qual"])
    if k in ("list", "set"):
        return "&verifT{K: %s, Elem: %s}" % ("kList" if k == "list" else "kSet", go_type(t["elem"]))
    return "&verifT{K: kMap, Key: %s, Elem: %s}" % (go_type(t["key"]), go_type(t["elem"]))


def norm_name(s):
    return re.sub(r"[^a-z0-9]", "", s.lower())


def resolve(models, prog, t):
    m = models[prog]
    if t["k"] in ("list", "set"):
        return {"k": t["k"], "elem": resolve(models, prog, t["elem"])}
    if t["k"] == "map":
        return {"k": "map", "key": resolve(models, prog, t["key"]), "elem": resolve(models, prog, t["elem"])}
    if t["k"] != "named":
        return t
    name = t["name"]
    if "." in name:
        prog, name = name.split(".", 1)
        m = models[prog]
    if name in m["typedefs"]:
        return resolve(models, prog, m["typedefs"][name])
    if name in m["enums"]:
        return {"k": "enum", "name": name}
    if name in m["structs"]:
        return {"k": "struct", "name": name, "prog": prog}
    raise ValueError("unknown type %s in %s" % (t["name"], prog))


def struct_entries(models, prog):
    """(qualified name, thrift struct name, union?, fields) for every struct-like thing of prog."""
    m = models[prog]
    out = []
    for s in m["structs"].values():
        out.append({"qual": s["name"], "wire_name": s["name"], "union": s["kind"] == "union", "fields": s["fields"], "go_hint": s["name"], "ctor": True})
    for svc in m["services"].values():
        for me in svc["methods"]:
            out.append({"qual": "%s.%s.args" % (svc["name"], me["name"]), "wire_name": me["name"] + "_args", "union": False,
                        "fields": [dict(f, req="default") for f in me["args"]], "go_hint": svc["name"] + me["name"] + "Args", "ctor": False})
            if not me["oneway"]:
                fields = []
                if me["ret"] is not None:
                    fields.append({"id": 0, "req": "optional", "type": me["ret"], "name": "success", "default": None})
                fields += [dict(f, req="optional") for f in me["throws"]]
                out.append({"qual": "%s.%s.result" % (svc["name"], me["name"]), "wire_name": me["name"] + "_result", "union": False, "result": True,
                            "fields": fields, "go_hint": svc["name"] + me["name"] + "Result", "ctor": False})
    return out


def go_tables(models, prog, gen_dir, pkgs):
    """Go source of the model tables and harness entries for program prog."""
    m = models[prog]
    src_all = "".join(open(f).read() for f in glob.glob(os.path.join(gen_dir, "*.go")))
    go_types = re.findall(r"^type (\w+) struct", src_all, re.M)
    by_norm = {}
    for t in go_types:
        by_norm.setdefault(norm_name(t), []).append(t)
    lines, entries, problems = ["var verifModel = map[string]*verifS{}", "", "func init() {"], [], []
    imports = set()

    def qtype(t):
        if t["k"] == "struct":
            return dict(t, qual=t["name"] if t["prog"] == prog else t["prog"] + "." + t["name"])
        if t["k"] in ("list", "set"):
            return dict(t, elem=qtype(t["elem"]))
        if t["k"] == "map":
            return dict(t, key=qtype(t["key"]), elem=qtype(t["elem"]))
        return t

    def add_struct(qual, e, owner_prog, pkg_prefix, ctor_expr):
        fs = []
        for f in e["fields"]:
            t = qtype(resolve(models, owner_prog, f["type"]))
            dflt = ""
            d = f.get("default")
            if d is not None and t["k"] in ("i8", "i16", "i32", "i64", "enum"):
                d = d.strip().rstrip(",;").strip()
                dn = None
                if re.fullmatch(r"-?\d+", d):
                    dn = int(d)
                elif t["k"] == "enum":
                    for mm in models.values():
                        for (en, ev) in mm["enums"].get(t["name"], []):
                            if d.split(".")[-1] == en and dn is None:
                                dn = ev
                if dn is not None:
                    dflt = ", HasDef: true, DefN: %d" % dn
            fs.append("{ID: %d, Name: %s, Req: %d, T: %s%s}" % (f["id"], json.dumps(f["name"]), {"required": 0, "optional": 1, "default": 2}[f["req"]], go_type(t), dflt))
        lines.append("\tverifModel[%s] = &verifS{Name: %s, Union: %s, Fields: []verifF{%s}, New: func() thrift.TStruct { return %s }}" % (
            json.dumps(qual), json.dumps(e["wire_name"]), "true" if e["union"] else "false", ", ".join(fs), ctor_expr))

    for e in struct_entries(models, prog):
        cands = by_norm.get(norm_name(e["go_hint"]), [])
        if len(cands) > 1:
            # names that differ only in capitalisation: the generator only ever upper-cases letters
            hint = re.sub(r"[^A-Za-z0-9]", "", e["go_hint"])
            scored = []
            for cand in cands:
                cc = re.sub(r"[^A-Za-z0-9]", "", cand)
                if len(cc) == len(hint) and all(a == b or a == b.upper() for a, b in zip(cc, hint)):
                    scored.append((sum(a != b for a, b in zip(cc, hint)), cand))
            scored.sort()
            if scored and (len(scored) == 1 or scored[0][0] < scored[1][0]):
                cands = [scored[0][1]]
        if len(cands) != 1:
            problems.append("cannot find the generated Go type for %s (candidates %s)" % (e["qual"], cands))
            continue
        gt = cands[0]
        ctor = "New%s()" % gt if e["ctor"] else "&%s{}" % gt
        add_struct(e["qual"], e, prog, "", ctor)
        ent = "VerifC02_" + re.sub(r"\W", "_", e["qual"])
        entries.append((ent, e))
        lines.append("\tverifHarnesses[%s] = %s" % (json.dumps(ent), ent))
    # structs of included programs that are referenced from here
    for inc in m["includes"]:
        ip = os.path.splitext(os.path.basename(inc))[0]
        ipkg = pkgs[ip]
        imports.add(ipkg)
        for s in models[ip]["structs"].values():
            e = {"qual": ip + "." + s["name"], "wire_name": s["name"], "union": s["kind"] == "union", "fields": s["fields"]}
            add_struct(e["qual"], e, ip, ipkg, "%s.New%s()" % (ipkg, s["name"]))
    lines.append("}")
    for ent, e in entries:
        lines.append("\nfunc %s() { verifRoundTrip(verifModel[%s], verifBound(), 1+verifBound()/2) }" % (ent, json.dumps(e["qual"])))
    imp = "".join('\t%s "verifgen/%s"\n' % (p, p) for p in sorted(imports))
    return "\n".join(lines) + "\n", [e for e, _ in entries], problems, imp


def typecheck(mod, pkg):
    """go build of one generated package; returns the compiler's complaint or ''."""
    r = subprocess.run(["go", "build", "./" + pkg + "/"], cwd=mod, env=genpipe.GOENV, capture_output=True, text=True)
    return "" if r.returncode == 0 else (r.stderr or r.stdout)[-800:]


def run(prop, spec, tier, scratch, known, vcheck):
    t0 = time.time()
    inconclusive, lines = [], []
    exe = genpipe.build_compiler(scratch)
    mod = genpipe.go_module(scratch)
    files = sorted(glob.glob(os.path.join(VERIF, "catalogue", "c02_*.frugal")))
    if tier == "quick":
        files = [f for f in files if os.path.basename(f) in spec["quick_programs"]] or files
    models, pkgs = {}, {}
    for f in glob.glob(os.path.join(VERIF, "catalogue", "c02_*.frugal")):
        name = os.path.splitext(os.path.basename(f))[0]
        models[name] = idlmini.parse(open(f).read())
        pkgs[name] = models[name]["namespace"].get("go", name)
    # the catalogue is copied so that includes resolve next to each other
    cat = os.path.join(scratch, "catalogue")
    os.makedirs(cat)
    for f in glob.glob(os.path.join(VERIF, "catalogue", "c02_*.frugal")):
        open(os.path.join(cat, os.path.basename(f)), "w").write(open(f).read())
    jobs, tc_violations = [], []
    tmpl = open(os.path.join(VERIF, "c02_harness.go.tmpl")).read()
    # variants: the default generator options, and (for the programs listed in spec["slim_programs"])
    # the `slim` option, whose Read/Write go through lib/go/encoder.go instead of inline protocol calls
    work = [(f, "", "go:package_prefix=verifgen/", mod) for f in files]
    for f in files:
        if os.path.basename(f) in spec.get("slim_programs", {}).get(tier, []):
            os.makedirs(os.path.join(mod, "slim"), exist_ok=True)
            work.append((f, "slim", "go:package_prefix=verifgen/slim/,slim", os.path.join(mod, "slim")))
    for f, variant, genopt, outdir in work:
        prog = os.path.splitext(os.path.basename(f))[0]
        label = prog + ("[%s]" % variant if variant else "")
        # a program with includes is generated the way users do it: one recursive run (-r), i.e. one
        # generator instance for the program and everything it includes
        rc, msg = genpipe.run_frugal(exe, os.path.join(cat, os.path.basename(f)), genopt, outdir, recursive=bool(models[prog]["includes"]))
        if rc != 0:
            # a catalogue program is valid IDL (the unchanged compiler accepts it): a compiler that REJECTS it with its own
            # diagnostic ("Failed to generate ...", exit 1), twice in a row, is a reproduced violation; anything else
            # (signal, missing binary, disk) stays inconclusive
            rc2, msg2 = genpipe.run_frugal(exe, os.path.join(cat, os.path.basename(f)), genopt, outdir + "_again", recursive=bool(models[prog]["includes"]))
            if rc == 1 and rc2 == 1 and "Failed to generate" in msg and "Failed to generate" in msg2:
                tc_violations.append({"property": prop, "harness": "frugal --gen go", "kind": "compile", "label": "the compiler accepts the valid catalogue program", "site": label,
                                      "fingerprint": "c02|%s|compile" % label, "detail": msg.strip()[-300:], "vector": [], "program": label})
            else:
                inconclusive.append("compiler failed on %s: %s" % (prog, msg[-400:]))
            continue
        pkg = pkgs[prog]
        gdir = os.path.join(outdir, pkg)
        complaint = typecheck(mod, os.path.relpath(gdir, mod))
        if complaint:
            tc_violations.append({"property": prop, "harness": "go build", "kind": "typecheck", "label": "generated Go does not type-check", "site": label,
                                  "fingerprint": "c02|%s|typecheck" % label, "detail": complaint, "vector": [], "program": label})
            continue
        try:
            tables, entries, problems, extra_imports = go_tables(models, prog, gdir, pkgs)
        except Exception as e:
            inconclusive.append("oracle model for %s: %s" % (prog, e))
            continue
        inconclusive += problems
        hdir = os.path.join(scratch, "harness_" + variant + pkg)
        os.makedirs(hdir)
        genpipe.sync_rt(VERIF, hdir, pkg)
        open(os.path.join(hdir, "zz_verif_c02.go"), "w").write(tmpl.replace("PKGNAME", pkg).replace("MODEL_TABLES", tables).replace("EXTRA_IMPORTS", extra_imports))
        group = {"dir": gdir, "overlay": hdir}
        bound = spec["elems"][tier]
        only = spec.get("slim_entries", {}).get(tier) if variant == "slim" else spec.get("entries_only", {}).get(tier, {}).get(prog)
        if only is not None:
            entries = [e for e in entries if e in only]
        nfields = {"VerifC02_" + re.sub(r"\W", "_", ent["qual"]): len(ent["fields"]) for ent in struct_entries(models, prog)}
        big = [e for e in entries if nfields.get(e, 0) > 6]
        small = [e for e in entries if e not in big]
        # entries whose path count explodes with the tier's container bound run with a smaller one (stated in the evidence)
        over = spec.get("elems_override", {}).get(tier, {})
        reduced = [e for e in entries if e in over]
        small = [e for e in small if e not in reduced]
        big = [e for e in big if e not in reduced]
        for i in range(0, len(small), 3):
            jobs.append({"group": group, "entries": small[i:i + 3], "bound": bound, "prog": label, "par": 1})
        for e in big:
            jobs.append({"group": group, "entries": [e], "bound": bound, "prog": label, "par": 6})
        for e in reduced:
            jobs.append({"group": group, "entries": [e], "bound": over[e], "prog": label, "par": 4})

    def run_job(job):
        g = job["group"]
        out = os.path.join(scratch, "res_%s_%s.json" % (re.sub(r"\W", "_", job["prog"]), job["entries"][0]))
        cmd = [vcheck.GOSE, "run", "-dir", g["dir"], "-overlay", g["overlay"], "-property", prop, "-out", out, "-bound", str(job["bound"]), "-max-decisions", "3000", "-wall", str(spec.get("wall", {}).get(tier, 240))]
        for e in job["entries"]:
            cmd += ["-entry", e]
        if job.get("par", 1) > 1:
            cmd += ["-par", str(job["par"])]
        r = subprocess.run(cmd, env=genpipe.GOENV, capture_output=True, text=True)
        if not os.path.exists(out):
            return job, None, (r.stderr or r.stdout)[-1500:]
        return job, json.load(open(out)), ""

    paths = steps = queries = asserts = 0
    funcs, violations, samples, programs = {}, [], [], set()
    with concurrent.futures.ThreadPoolExecutor(max_workers=12) as ex:
        for job, res, err in ex.map(run_job, jobs):
            if res is None:
                inconclusive.append("gose failed on %s %s: %s" % (job["prog"], job["entries"], err))
                continue
            programs.add(job["prog"])
            for er in res["entries"]:
                paths += er["paths"]
                steps += er["steps"]
                queries += er["sat"] + er["unsat"]
                asserts += er["asserts"]
                for f, n in er["funcs"].items():
                    funcs[f] = funcs.get(f, 0) + n
                for ev in er.get("events") or []:
                    inconclusive.append("%s/%s: %s" % (job["prog"], er["entry"], ev))
                if "end" not in (er.get("reach") or []) and not er.get("violations"):
                    inconclusive.append("%s/%s: end not reached" % (job["prog"], er["entry"]))
                for s in (er.get("samples") or [])[:1]:
                    if len(samples) < 8:
                        samples.append({"program": job["prog"], "entry": er["entry"], "vector": s["vector"][:24], "decisions": s["decisions"][:160]})
                for v in er.get("violations") or []:
                    v["fingerprint"] = "c02|%s|%s|%s" % (job["prog"], er["entry"], v["label"])
                    v["param"], v["bound"] = 0, job["bound"]
                    violations.append((v, job))
    exit_code, new = 0, 0
    os.makedirs(REPLAYS, exist_ok=True)
    seen = set()
    for v in tc_violations:
        k = vcheck.match_known(known, prop, v["fingerprint"])
        if k:
            lines.append("KNOWN-FINDING: property=%s %s" % (prop, k["what"]))
            continue
        path = os.path.join(REPLAYS, "%s-%s.json" % (prop, hashlib.sha1(v["fingerprint"].encode()).hexdigest()[:10]))
        v["confirmed_by"] = "go build of the generated package fails"
        json.dump(v, open(path, "w"), indent=1)
        lines.append("VIOLATION property=%s replay=%s" % (prop, path))
        lines.append("  what: program %s: the generated Go package does not type-check: %s" % (v["program"], v["detail"][:300].replace("\n", " | ")))
        new += 1
        exit_code = 1
    for v, job in violations:
        fp = v["fingerprint"]
        if fp in seen:
            continue
        seen.add(fp)
        k = vcheck.match_known(known, prop, fp)
        if k:
            lines.append("KNOWN-FINDING: property=%s %s" % (prop, k["what"]))
            continue
        ok, how = vcheck.confirm(prop, job["group"], {"name": v["harness"], "native": True}, v, scratch)
        if not ok:
            inconclusive.append("ENGINE-MISMATCH: counterexample %s did not reproduce natively: %s" % (fp, how))
            continue
        path = os.path.join(REPLAYS, "%s-%s.json" % (prop, hashlib.sha1(fp.encode()).hexdigest()[:10]))
        v["confirmed_by"] = how
        v["program"] = job["prog"]
        json.dump(v, open(path, "w"), indent=1)
        lines.append("VIOLATION property=%s replay=%s" % (prop, path))
        lines.append("  what: program %s, %s: %s (%s)" % (job["prog"], v["harness"], v["label"], v["detail"][:200]))
        lines.append("  confirmed: %s" % how[:200])
        new += 1
        exit_code = 1
    if exit_code == 0 and inconclusive:
        exit_code = 2
    gen_funcs = sorted(f for f in funcs if "verifgen/" in f and "erif" not in f.split(".")[-1])
    ev = {
        "property_id": prop, "tier": tier, "seed": int(os.environ.get("VERIF_SEED", "0") or 0), "level": "model_checking",
        "coverage": {
            "states": max(paths, 1), "transitions": max(steps, 1), "traces_validated_against_impl": 0,
            "samples": samples or [{"note": "none"}],
            "programs": len(programs), "programs_checked": sorted(programs), "structs_checked": sum(len(j["entries"]) for j in jobs),
            "generated_functions_encoded": len(gen_funcs), "generated_functions_sample": gen_funcs[:60],
            "queries": queries, "assertions_checked": asserts, "exhaustive": not inconclusive, "inconclusive": inconclusive[:20],
            "bounds": spec["bounds"][tier],
        },
        "assumptions": spec.get("assumptions", []), "wall_s": round(time.time() - t0, 2), "violations": new,
    }
    return lines, exit_code, ev, inconclusive, "programs=%d structs=%d paths=%d queries=%d" % (len(programs), sum(len(j["entries"]) for j in jobs), paths, queries)
