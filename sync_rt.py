#!/usr/bin/env python3
"""Copies the harness run-time (written once for package frugal) into the other harness packages."""
import os, re
V = os.path.dirname(os.path.abspath(__file__))
PK = {"parser": "parser", "golang": "golang", "dartlang": "dartlang", "html": "html", "compiler": "compiler"}
for d, pkg in PK.items():
    for src, dst in [("libgo/zz_verif_rt.go", d + "/zz_verif_rt.go"), ("libgo_test/zz_verif_replay_test.go", d + "_test/zz_verif_replay_test.go")]:
        s = open(os.path.join(V, "harness", src)).read()
        s = re.sub(r"^package frugal$", "package " + pkg, s, count=1, flags=re.M)
        p = os.path.join(V, "harness", dst)
        os.makedirs(os.path.dirname(p), exist_ok=True)
        if not os.path.exists(p) or open(p).read() != s:
            open(p, "w").write(s)
