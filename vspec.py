"""Per-property check specifications for vcheck."""

LIBGO = {"dir": "/repo/lib/go", "overlay": "libgo"}


def lengths(n):
    return list(range(0, n + 1))


SPECS = {}

SPECS["C05"] = {
    "level": "model_checking",
    "groups": [dict(LIBGO, entries=[
        {"name": "VerifC05_FramePath", "quick": {"params": lengths(14)}, "thorough": {"params": lengths(22)}, "expect_reach": ["end", "parsed", "rejected"]},
        {"name": "VerifC05_UnmarshalFrame", "quick": {"params": lengths(16)}, "thorough": {"params": lengths(24)}, "expect_reach": ["end", "parsed", "rejected"]},
        {"name": "VerifC05_AddHeaders", "quick": {"params": lengths(16)}, "thorough": {"params": lengths(24)}, "expect_reach": ["end", "parsed", "rejected"]},
        {"name": "VerifC05_StreamPath", "quick": {"params": lengths(13)}, "thorough": {"params": lengths(21)}, "expect_reach": ["end", "parsed", "rejected"]},
        {"name": "VerifC05_ExecuteFrame", "quick": {"params": lengths(12)}, "thorough": {"params": lengths(20)}},
        {"name": "VerifC05_NatsHandler", "quick": {"params": lengths(10)}, "thorough": {"params": lengths(16)}},
    ])],
    "level_text": "Bounded symbolic model checking of the real receive paths: for every buffer length up to the bound and every byte content (and both capacity shapes) each entry point is executed symbolically from go/ssa; every slice/index/make/nil run-time check and every assertion is a z3 query, so 'no panic, value or error, terminates' holds for all inputs inside the bound. Outside: longer buffers, allocation sizes above 40 are represented by one witness per path, real sockets.",
    "level_note": "Trusted: go/ssa construction, the gose interpreter (validated per run by executing sampled path witnesses natively and comparing coverage labels), z3. Stubs: logrus (no-op), fmt (host formatting), errors.Is/As (chain walk), sync primitives (engine).",
    "bounds": {"quick": "buffer length 0..10-16 bytes depending on the entry point (one engine process per length), all byte values, capacity = length or length+3",
               "thorough": "buffer length 0..16-24 bytes"},
    "assumptions": [],
}

OVERLAYS = {}

HOOK_COMMITS = []

NOT_APPLICABLE = {
    "C10": "The property is about the pigeon-generated PEG interpreter applied to arbitrary IDL text and a render/parse round trip for which no renderer exists; the recogniser (rule tables built in init, backtracking matcher over interface{} stacks, regexp, strconv.Unquote) has no bounded SMT encoding within reach and path-by-path symbolic execution explodes at every ordered choice. See DESIGN.md §7.",
    "C19": "2-safety hyper-property of whole compiler runs (map-iteration seeds, cwd, absolute paths, time, file-system order, goimports); needs the complete generators and their file I/O, which the engine cannot encode; the anchored pure helpers contain no map iteration for a solver to decide. See DESIGN.md §7.",
}
