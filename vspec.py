"""Per-property check specifications for vcheck."""

import os

# The checks registered in MANIFEST.json always run against /repo. VERIF_REPO exists only so that
# seedeval.py can evaluate a breaking change in a scratch worktree without touching /repo.
REPO = os.environ.get("VERIF_REPO", "/repo")
LIBGO = {"dir": REPO + "/lib/go", "overlay": "libgo"}


def lengths(n):
    return list(range(0, n + 1))


SPECS = {}

SPECS["C05"] = {
    "level": "model_checking",
    "groups": [dict(LIBGO, entries=[
        {"name": "VerifC05_StompBurst", "native": False, "quick": {"params": [0, 1], "flags": ["-preempt", "1"], "procs": 2}, "thorough": {"params": [0, 1, 2], "flags": ["-preempt", "1", "-par", "4"], "procs": 3}},
        {"name": "VerifC05_FramePath", "flags": ["-unwind-violation"], "quick": {"params": lengths(14)}, "thorough": {"params": lengths(22)}, "expect_reach": ["end", "parsed", "rejected"]},
        {"name": "VerifC05_UnmarshalFrame", "flags": ["-unwind-violation"], "quick": {"params": lengths(16)}, "thorough": {"params": lengths(24)}, "expect_reach": ["end", "parsed", "rejected"]},
        {"name": "VerifC05_AddHeaders", "flags": ["-unwind-violation"], "quick": {"params": lengths(16)}, "thorough": {"params": lengths(24)}, "expect_reach": ["end", "parsed", "rejected"]},
        {"name": "VerifC05_StreamPath", "flags": ["-unwind-violation"], "quick": {"params": lengths(13)}, "thorough": {"params": lengths(21)}, "expect_reach": ["end", "parsed", "rejected"]},
        {"name": "VerifC05_ExecuteFrame", "flags": ["-unwind-violation"], "quick": {"params": lengths(12)}, "thorough": {"params": lengths(20)}},
        {"name": "VerifC05_HTTPHandler", "quick": {"params": [0, 1, 2, 3, 4], "procs": 5}, "thorough": {"params": [0, 1, 2, 3, 4, 5, 6], "procs": 7, "flags": ["-par", "2"]}},
        {"name": "VerifC05_HTTPClient", "native": False, "quick": {"params": [0, 1, 2, 3, 4, 5], "procs": 3}, "thorough": {"params": [0, 1, 2, 3, 4, 5, 6, 7], "procs": 4, "flags": ["-par", "3"]},
         "expect_reach": ["end", "rejected"]},
        {"name": "VerifC05_NatsHandler", "flags": ["-unwind-violation"], "quick": {"params": lengths(10)}, "thorough": {"params": lengths(16)}},
        {"name": "VerifC05_FramedStream", "native": False, "quick": {"params": lengths(16), "procs": 4}, "thorough": {"params": lengths(24), "procs": 8}},
        {"name": "VerifC05_NatsServerFrame", "native": False, "quick": {"params": lengths(16), "procs": 4}, "thorough": {"params": lengths(24), "procs": 8}},
        {"name": "VerifC05_SubscriberCallback", "quick": {"params": lengths(16), "procs": 4}, "thorough": {"params": lengths(24), "procs": 8}},
        {"name": "VerifC14_SurvivesFailedReply", "native": False, "quick": {"params": [0, 1, 2, 3, 4], "procs": 5}, "thorough": {"params": [0, 1, 2, 3, 4], "procs": 5},
         "expect_reach": ["end", "first-answered", "first-unanswerable"]},
        {"name": "VerifC05_MutatedRequest", "native": False, "flags": ["-max-concretize", "600", "-duration-witness"], "quick": {"params": list(range(0, 112, 2)), "bound": 4, "procs": 8}, "thorough": {"params": list(range(0, 112)), "bound": 4, "procs": 14},},
        {"name": "VerifC05_MutatedPublish", "flags": ["-max-concretize", "600"], "quick": {"params": list(range(0, 116, 2)), "bound": 4, "procs": 8}, "thorough": {"params": list(range(0, 116)), "bound": 4, "procs": 14}},
    ])],
    "level_text": "Bounded symbolic model checking of the real receive paths: for every buffer length up to the bound and every byte content (and both capacity shapes) each entry point is executed symbolically from go/ssa; every slice/index/make/nil run-time check and every assertion is a z3 query, so 'no panic, value or error, terminates' holds for all inputs inside the bound. Outside: longer buffers, allocation sizes above 40 are represented by one witness per path, real sockets.",
    "level_note": "Trusted: go/ssa construction, the gose interpreter (validated per run by executing sampled path witnesses natively and comparing coverage labels), z3. Stubs: logrus (no-op), fmt (host formatting), errors.Is/As (chain walk), sync primitives (engine).",
    "bounds": {"quick": "HTTP handler: base64 body of 0..4 characters from 4 classes, 5 Content-Length values, 5 limit headers; buffer length 0..10-16 bytes depending on the entry point (one engine process per length), all byte values, capacity = length or length+3; mutated frames: a well-formed ~110-byte request / published frame with an arbitrary 4-byte window at every even offset",
               "thorough": "buffer length 0..16-24 bytes; mutation window at every offset"},
    "assumptions": [],
}

SPECS["C04"] = {
    "level": "model_checking",
    "groups": [dict(LIBGO, entries=[
        {"name": "VerifC04_LargeBlock", "quick": {"params": [0, 2, 4], "procs": 3}, "thorough": {"params": [0, 1, 2, 3, 4, 5], "procs": 6}},
        {"name": "VerifC04_RoundTrip", "quick": {"params": [0, 1, 2], "bound": 2}, "thorough": {"params": [0, 1, 2], "bound": 3, "procs": 3},
         "expect_reach": ["end", "distinct-names", "collapsed-names"]},
        {"name": "VerifC04_RoundTrip", "tiers": ["thorough"], "thorough": {"params": [3], "bound": 2, "flags": ["-par", "6", "-max-paths", "2000000"]},
         "expect_reach": ["end", "distinct-names", "collapsed-names"]},
        {"name": "VerifC04_AddHeaders", "quick": {"params": [0, 1, 2], "bound": 1}, "thorough": {"params": [0, 1, 2], "bound": 2}},
        {"name": "VerifC04_WireToContext", "quick": {"params": [0, 1, 2], "bound": 2}, "thorough": {"params": [0, 1, 2], "bound": 3},
         "expect_reach": ["end", "with-cid", "with-timeout", "timeout-changed-between-writes"]},
    ])],
    "level_text": "Bounded symbolic model checking of the real Go codec (marshalHeaders/calculateHeaderSize via FProtocol.writeHeader, readHeader/unmarshalHeaders/readPairs, getHeadersFromFrame, unmarshalFrame, addHeadersToFrame): for every map of up to n headers with arbitrary byte content and every iteration order of the Go map (independently in the size and the write loop) the bytes equal the documented v0 layout as judged by an independent reference reader, both readers return the identical map, and the payload is untouched. Outside: the Python codec (not reachable from go/ssa), more headers / longer strings than the bound.",
    "level_note": "Trusted: go/ssa, gose interpreter (path witnesses re-run natively), z3; the reference reader in the harness is the oracle for documentation/protocol.md. Stubs: fmt, logrus.",
    "bounds": {"quick": "n <= 2 headers, names/values 0..2 bytes (AddHeaders: 0..1), payload 0..2 bytes, all iteration orders",
               "thorough": "n <= 2 headers with names/values 0..3 bytes and n = 3 headers with names/values 0..2 bytes (AddHeaders: n <= 2, 0..2), payload 0..2 bytes"},
    "assumptions": ["Python runtime codec and contrib/frame_parser.py are outside the claim"],
}

SPECS["C09"] = {
    "level": "model_checking",
    "groups": [dict(LIBGO, entries=[
        {"name": "VerifC09_ContextRoundTrip", "quick": {"params": [0, 1], "bound": 2}, "thorough": {"params": [0, 1, 2], "bound": 2, "procs": 3}},
        {"name": "VerifC01_ConcurrentCalls", "native": False, "quick": {"params": [0], "flags": ["-preempt", "1"]}, "thorough": {"params": [0], "flags": ["-preempt", "2"]}},
        {"name": "VerifC09_ThroughProcessor", "quick": {"params": [0], "bound": 2}, "thorough": {"params": [0], "bound": 3}, "expect_reach": ["end", "onward-call"]},
    ])],
    "level_text": "Bounded symbolic model checking of the real header path of a call (NewFContext, AddRequestHeader, SetTimeout/Timeout, FProtocol.WriteRequestHeader -> bytes -> ReadRequestHeader on the server, AddResponseHeader, WriteResponseHeader -> bytes -> ReadResponseHeader on the client): for all user header names/values (arbitrary bytes, non-reserved names), correlation ids and a set of timeouts the handler context sees exactly the user headers, cid and timeout, carries a fresh op id drawn from the local counter, the response carries the request op id and cid, every handler-set response header reaches the caller and the caller's request headers and own op id are untouched. Pub/sub uses the same ReadRequestHeader. The same obligations are also observed inside a handler behind FBaseProcessor.Process and a processor function of the generated shape (user header, correlation id, timeout from {0 = no deadline, 1 ms, 250 ms, 5 s, 1 h}, fresh op id) and in the reply frame the server produced (op id, correlation id, handler-set response header). Outside: transports (bytes moved verbatim), more/longer headers than the bound.",
    "level_note": "Trusted: go/ssa, gose interpreter, z3. Stubs: fmt, logrus, strconv fast path for concrete digits, sync (engine mutexes).",
    "bounds": {"quick": "<= 1 user request header, <= 2 response headers, names 1..2 bytes, values 0..2 bytes, cid 1..2 bytes, 6 timeout values", "thorough": "<= 2 user request headers"},
    "assumptions": [],
}

SPECS["C12"] = {
    "level": "model_checking",
    "groups": [dict(LIBGO, entries=[
        {"name": "VerifC12_BufferLimit", "quick": {"params": [1, 2, 3], "bound": 2}, "thorough": {"params": [1, 2, 3], "bound": 5, "procs": 3}, "expect_reach": ["end", "accepted", "rejected"]},
        {"name": "VerifC12_BufferLimit", "tiers": ["thorough"], "thorough": {"params": [4], "bound": 3, "flags": ["-par", "6", "-max-paths", "3000000"]}, "expect_reach": ["end", "accepted", "rejected"]},
        {"name": "VerifC12_PrepareMessage", "quick": {"params": [0, 1, 2], "bound": 3}, "thorough": {"params": [0, 1, 2], "bound": 12}, "expect_reach": ["end", "fits", "too-large"]},
        {"name": "VerifC12_HTTPResponseLimit", "quick": {"params": [0, 1], "bound": 1}, "thorough": {"params": [0, 1, 2], "bound": 2}, "expect_reach": ["end", "fits", "too-large"]},
        {"name": "VerifC12_HTTPEndToEndLimit", "native": False, "quick": {"params": [0, 2], "procs": 2}, "thorough": {"params": [0, 1, 2, 3], "procs": 4}, "expect_reach": ["end", "fits", "too-large", "huge-limit"]},
        {"name": "VerifC12_SendReply", "quick": {"params": [0, 1, 2], "bound": 3}, "thorough": {"params": [0, 1, 2], "bound": 12}, "expect_reach": ["end", "fits", "too-large"]},
        {"name": "VerifC14_SurvivesFailedReply", "native": False, "quick": {"params": [0, 1, 2, 3, 4], "procs": 5}, "thorough": {"params": [0, 1, 2, 3, 4], "procs": 5},
         "expect_reach": ["end", "first-answered", "first-unanswerable"]},
    ])],
    "level_text": "Bounded symbolic model checking of the real limit enforcement: (a) TMemoryOutputBuffer driven through thrift.TRichTransport (Write, WriteString, WriteByte) with an arbitrary limit 0..40 and up to 3 (4) writes of arbitrary length: a write is rejected iff it would exceed the limit, with REQUEST_TOO_LARGE, buffer reset, prefix exact; (b) FStandardClient.prepareMessage with the real TBinaryProtocol and a message whose large string is first/middle/last, limit around the exact framed size (computed independently): fails iff over, and the next in-limit message succeeds; (c) FBaseProcessorFunction.SendReply with an oversize result produces exactly one RESPONSE_TOO_LARGE exception which FStandardClient.processReply maps to transport error 101, in-limit replies arrive intact. (d) the HTTP server handler (NewFrugalHandlerFunc, real base64 codec and FBaseProcessor) called 2..3 (4) times in a row with the client-requested limit at size-1 / size / size+1 / 1: 413 iff the response exceeds the limit, otherwise the exact frame, and every later request is judged on its own. Outside: the request-side checks of the NATS/STOMP/HTTP client transports, other runtimes.",
    "level_note": "Trusted: go/ssa, gose interpreter, z3; thrift's TBinaryProtocol and bytes.Buffer are executed from their real SSA. Stubs: fmt, logrus, context (engine model), sync.",
    "bounds": {"quick": "limit 0..40 symbolic, <= 3 writes of 0..2 bytes; string sizes within 3 of the boundary", "thorough": "<= 3 writes of 0..5 bytes and 4 writes of 0..3 bytes; string sizes within 12 of the boundary"},
    "assumptions": ["(c): the limit admits the RESPONSE_TOO_LARGE reply itself (>= 160 bytes)"],
}

SCHED_NOTE = "Schedules: delay-bounded (all schedules with at most d deviations from the non-preemptive round-robin scheduler; a context switch is possible before every channel/select/mutex/atomic/WaitGroup operation; a timer firing counts as a deviation unless nothing else can run). Counterexamples of threaded harnesses are confirmed by pinned concrete re-execution of the real SSA under the recorded schedule (no native schedule controller)."

SPECS["C01"] = {
    "level": "model_checking",
    "groups": [dict(LIBGO, entries=[
        {"name": "VerifC01_RegistryStep", "native": False, "quick": {"params": [0, 1, 2], "bound": 3}, "thorough": {"params": [0, 1, 2], "bound": 4},
         "expect_reach": ["end", "duplicate", "registered", "unregistered", "delivered", "slot-full", "unknown", "not-a-number"]},
        {"name": "VerifC01_NatsRouting", "native": False, "quick": {"params": [0, 1]}, "thorough": {"params": [0, 1]},
         "expect_reach": ["end", "frame-delivered", "foreign-subject", "503-delivered"]},
        {"name": "VerifC01_ConcurrentCalls", "native": False, "quick": {"params": [0], "flags": ["-preempt", "1"]}, "thorough": {"params": [0], "flags": ["-preempt", "2"]}},
        {"name": "VerifC01_OpIDOverflow", "quick": {"params": [0, 1, 2]}, "thorough": {"params": [0, 1, 2]}},
        {"name": "VerifC01_SequentialReuse", "native": False, "quick": {"params": [0, 1, 2], "flags": ["-preempt", "2"]}, "thorough": {"params": [0, 1, 2, 3], "flags": ["-preempt", "3"]}},
        {"name": "VerifC01_AdapterCorrelation", "native": False, "quick": {"params": [0, 1, 2], "flags": ["-preempt", "1"]},
         "thorough": {"params": [0, 1, 2, 3], "flags": ["-preempt", "2", "-par", "4"], "procs": 4}, "flags": [],
         "expect_reach": ["end", "with-deadline", "timed-out", "foreign-clones"]},
    ])],
    "level_text": "(a) One-step contracts of the real registry from an ARBITRARY pre-state (the channels map is an unknown map of any size; a registered channel is empty or full): Register / Unregister / Execute with an arbitrary op-id string (real strconv.ParseUint on symbolic bytes) store, remove or deliver to exactly the caller's own channel, refuse an in-flight duplicate, discard unknown ids, never overwrite a delivered frame, and leave every other registration untouched (probe key) - this covers any number of concurrent callers and any history because each step is atomic under the registry mutex. (b) Bounded symbolic execution with threads of the real fAdapterTransport (Open/readLoop/TFramedTransport/Request/registry) over a harness pipe: 2 concurrent callers (one optionally with a deadline), an adversarial peer sending k frames in any order / multiplicity / with unknown ids: a caller succeeds only with its own frame, caller 2 always gets its own, failures are only own timeouts, no registration is left. (c) one step of fNatsTransport.handler from an arbitrary registry with independent symbolic op ids in the frame and in the reply-subject suffix: a frame reaches the request whose op id it carries and never the request that merely owns the reply subject; a 503 status message is routed by the subject suffix. (d) two requests issued one after the other with 1..3 copies of the first response arriving at any time: the later request completes only with its own frame. Outside: HTTP, >2 callers in (b).",
    "level_note": "Trusted: go/ssa, gose interpreter and scheduler model, z3. " + SCHED_NOTE,
    "bounds": {"quick": "(a) op-id strings 0..3 arbitrary bytes; (b) k <= 2 adversarial frames, delay bound 1", "thorough": "(a) 0..4 bytes; (b) k <= 3, delay bound 2"},
    "assumptions": ["(a) the unknown registry is injective and its channels have capacity 1 (every Register call site passes make(chan []byte, 1))"],
}

SPECS["C06"] = {
    "level": "model_checking",
    "groups": [dict(LIBGO, entries=[
        {"name": "VerifC06_DispatchNeverBlocks", "native": False, "quick": {"params": [0], "bound": 3}, "thorough": {"params": [0], "bound": 4}, "expect_reach": ["end", "slot-full", "slot-empty", "unknown"]},
        {"name": "VerifC06_ReopenedStream", "native": False, "quick": {"params": [0], "flags": ["-preempt", "1"]}, "thorough": {"params": [0], "flags": ["-preempt", "2", "-par", "4"]},
         "expect_reach": ["end", "cut-inside-body", "exchange-before-loss"]},
        {"name": "VerifC06_AdapterNoHOL", "native": False, "quick": {"params": [1, 2, 3, 4], "flags": ["-preempt", "1"], "procs": 2},
         "thorough": {"params": [3, 4, 5], "flags": ["-preempt", "2", "-par", "5"], "procs": 3}, "expect_reach": ["end", "triple-duplicate"]},
        {"name": "VerifC06_NatsDuplicateContext", "native": False, "flags": ["-timer-preempt=false"], "quick": {"params": [0, 1], "flags": ["-preempt", "1"]}, "thorough": {"params": [0, 1], "flags": ["-preempt", "3"]}},
    ])],
    "level_text": "(a) One-step contract from an arbitrary registry state (unknown map, registered channel empty or full): Execute of any well-formed frame returns without blocking - for every state and frame, so no number of duplicates, unknown or late responses can stall the reader. (b) Bounded symbolic execution with threads of the real adapter transport: one caller without deadline, an adversarial prefix of k frames (own id xN, unknown ids), then a FRESH request whose response must still be delivered (a wedged reader shows up as a deadlock). Outside: more than k frames in (b).",
    "level_note": "Trusted: go/ssa, gose interpreter and scheduler model, z3. " + SCHED_NOTE,
    "bounds": {"quick": "(b) k <= 4 frames, delay bound 1", "thorough": "(b) k <= 5 frames, delay bound 2"},
    "assumptions": [],
}

SPECS["C17"] = {
    "level": "model_checking",
    "groups": [dict(LIBGO, entries=[
        {"name": "VerifC17_OpIDsUnique", "native": False, "quick": {"params": [0], "flags": ["-preempt", "2"]}, "thorough": {"params": [0, 1], "flags": ["-preempt", "2", "-par", "8"]}},
        {"name": "VerifC17_SharedContext", "native": False, "quick": {"params": [0], "flags": ["-preempt", "2"]}, "thorough": {"params": [0], "flags": ["-preempt", "3"]}, "expect_reach": ["end", "two-writers"]},
        {"name": "VerifC17_CloneIndependent", "quick": {"params": [0, 1, 2], "bound": 1}, "thorough": {"params": [0, 1, 2], "bound": 2}, "expect_reach": ["end", "empty-response-headers", "foreign-context"]},
    ])],
    "level_text": "(a) From an ARBITRARY value of the op-id counter (symbolic uint64), 2 (3) goroutines that create / Clone() / frugal.Clone() contexts concurrently plus one sequential context: all op ids pairwise different and different from every id issued before (decided on the uint64 level; strconv format/parse of the symbolic id is an injective tag), and the counter is only touched through sync/atomic (watched cell). (b) Two goroutines applying any pair of FContext operations to one shared context: every access to the three maps holds the context mutex in the right mode (lock-discipline monitor), last-writer-wins. (c) Clone (method and package function): starts equal except for a fresh op id, and a mutation of either side (request/response header, timeout, ephemeral property) is invisible to the other. Outside: >3 goroutines.",
    "level_note": "Trusted: go/ssa, gose interpreter and scheduler model, z3. " + SCHED_NOTE,
    "bounds": {"quick": "(a) 2 workers, delay bound 2; (b) delay bound 2; (c) names/values 0..1 bytes", "thorough": "(a) 3 workers; (b) delay bound 3; (c) 0..2 bytes"},
    "assumptions": [],
}

SPECS["C13"] = {
    "level": "model_checking",
    "groups": [dict(LIBGO, entries=[
        {"name": "VerifC13_DeadlineExists", "quick": {"params": [0], "bound": 62}, "thorough": {"params": [0], "bound": 62}},
        {"name": "VerifC13_AdapterReturns", "native": False, "quick": {"params": [0, 1, 2, 3], "flags": ["-preempt", "2"]}, "thorough": {"params": [0, 1, 2, 3], "flags": ["-preempt", "3"]},
         "expect_reach": ["end", "timed-out", "answered", "late-answer"]},
        {"name": "VerifC13_HTTPReturns", "native": False, "quick": {"params": [0, 1, 2], "flags": ["-preempt", "1"]}, "thorough": {"params": [0, 1, 2], "flags": ["-preempt", "2"]},
         "expect_reach": ["end", "timed-out", "connection-lost", "answered"]},
        {"name": "VerifC13_AdapterLifecycleStall", "native": False, "quick": {"params": [0, 1], "flags": ["-preempt", "1"]}, "thorough": {"params": [0, 1], "flags": ["-preempt", "2"]},
         "expect_reach": ["end", "stalled-close", "stalled-open"]},
        {"name": "VerifC13_NatsReturns", "native": False, "quick": {"params": [0, 1, 2], "flags": ["-preempt", "2"]}, "thorough": {"params": [0, 1, 2], "flags": ["-preempt", "3"]},
         "expect_reach": ["end", "timed-out", "answered", "stalled-flush"]},
    ])],
    "level_text": "(a) For EVERY positive timeout below 2^62 ns (symbolic int64; the /1e6 and *1e6 kernel is decided by cvc5's integer encoding of bit-vectors because bit-blasting does not terminate) SetTimeout/Timeout yields a positive deadline within 1 ms (the wire granularity) of the requested one, so ToContext always installs a deadline. (b)/(c) Bounded symbolic execution with threads and a virtual clock of the real fAdapterTransport.Request/Oneway/send and fNatsTransport.Request: with a silent peer, a late answer (before or after the deadline), a write that blocks forever or a flush that blocks forever the call returns (a call that never returns is a deadlock of the harness), fails only with TIMED_OUT, succeeds only with the peer's answer, and leaves no registration behind; timeouts 0.5 ms, 1 ms, 2.5 ms. Outside: net/http internals (modelled by their contract), wall-clock allowances (time is virtual: any delay is possible).",
    "level_note": "Trusted: go/ssa, gose interpreter and scheduler model, z3, cvc5 1.0 (--solve-bv-as-int=sum) for the division kernel; time/context are engine models (a timer may fire at any scheduling point once it is the earliest pending one); nats.go is the contract model in harness/libgo/zz_verif_nats.go. " + SCHED_NOTE,
    "bounds": {"quick": "timeouts: all 0<d<2^62 ns for (a); three values for (b)/(c); delay bound 2", "thorough": "delay bound 3"},
    "assumptions": ["nats.go behaves as the contract model states"],
}

SPECS["C15"] = {
    "level": "model_checking",
    "groups": [dict(LIBGO, entries=[
        {"name": "VerifC15_Lifecycle", "native": False, "quick": {"params": [0], "flags": ["-preempt", "1"]}, "thorough": {"params": [0, 1], "flags": ["-preempt", "1", "-par", "7"], "procs": 2},
         "expect_reach": ["end", "second-generation", "eof-boundary", "eof-inside-frame", "read-error", "bad-frame", "user-close"]},
        {"name": "VerifC15_Monitored", "native": False, "quick": {"params": [0, 1], "flags": ["-preempt", "1"]}, "thorough": {"params": [0, 1, 2], "flags": ["-preempt", "2"]},
         "expect_reach": ["end", "second-failure-notified"]},
        {"name": "VerifC15_ReopenPolicy", "quick": {"params": [0]}, "thorough": {"params": [0]}},
        {"name": "VerifC15_FailedCloseThenFailure", "native": False, "quick": {"params": [0, 1], "flags": ["-preempt", "1"]}, "thorough": {"params": [0, 1], "flags": ["-preempt", "2"]}},
        {"name": "VerifC15_ConcurrentOpen", "native": False, "quick": {"params": [0], "flags": ["-preempt", "2"]}, "thorough": {"params": [0], "flags": ["-preempt", "3"]}},
        {"name": "VerifC15_NatsOutage", "native": False, "quick": {"params": [0, 1], "flags": ["-preempt", "1"]}, "thorough": {"params": [0, 1], "flags": ["-preempt", "2"]}, "expect_reach": ["end", "close-during-outage"]},
        {"name": "VerifC15_RepeatedOutages", "native": False, "quick": {"params": [0, 1], "flags": ["-preempt", "1"]}, "thorough": {"params": [0, 1, 2], "flags": ["-preempt", "2"]},
         "expect_reach": ["end", "later-outage-with-refusals", "budget-exhausted"]},
    ])],
    "level_text": "Bounded symbolic execution with threads of the real fAdapterTransport life-cycle (Open, readLoop, readFrame, TFramedTransport, close, Closed, IsOpen, SetMonitor, monitorRunner) over a harness byte stream: 2 (3) generations of open -> failure -> reopen where the failure is a clean EOF at a frame boundary, an EOF inside a frame (cut inside the size prefix, after it, inside the headers, one byte short; thorough: every offset), a read error, an unprocessable frame, or a user Close: every generation ends closed, publishes exactly one close cause (nil required for a user close, non-nil required for errors) and then closes the channel, reports ALREADY_OPEN / NOT_OPEN consistently, never deadlocks; with a monitor attached every unclean close is notified and followed by a reopen, repeatedly, and the final clean close is notified. With the default policy (MaxReopenAttempts 1..2) attached and 2..3 (4) outages in which 0..budget reopen attempts are refused, every outage gets the full budget again. Sequentially, BaseFTransportMonitor + monitorRunner.attemptReopen with symbolic MaxReopenAttempts (0..3), symbolic InitialWait <= MaxWait (any int64 below 2^55) and 0..4 failing Opens: attempts never exceed the maximum, no wait exceeds MaxWait, success iff an attempt within the budget succeeds. Outside: HTTP transport, write-side failures, real sockets.",
    "level_note": "Trusted: go/ssa, gose interpreter and scheduler model, z3. time.Sleep is redirected to a logging stub in the policy harness. " + SCHED_NOTE,
    "bounds": {"quick": "2 generations, 6 cut offsets, delay bound 1; monitor: 2-3 failures", "thorough": "3 generations, every cut offset; monitor: delay bound 2"},
    "assumptions": [],
}

NATS_NOTE = "nats.go / go-stomp are not interpreted: their methods are redirected to the contract model written in Go in harness/libgo/zz_verif_nats.go (one dispatcher goroutine per subscription calling the callback sequentially in arrival order; Unsubscribe stops delivery at once; Drain delivers what is pending and stops intake once the server has processed the UNSUB - by itself or at the latest at the next Flush - until then messages of other connections may still arrive; Barrier(f) runs f after everything pending at the call was handed to callbacks) and to a channel-backed stomp.Subscription; results are relative to that contract. "

SPECS["C07"] = {
    "level": "model_checking",
    "groups": [dict(LIBGO, entries=[
        {"name": "VerifC07_NatsPubSub", "native": False, "quick": {"params": [1, 2], "bound": 1, "flags": ["-preempt", "1"]},
         "thorough": {"params": [1, 2, 3], "bound": 2, "flags": ["-preempt", "1", "-par", "5"], "procs": 3},
         "expect_reach": ["end", "valid", "short-frame", "bad-header", "other-op", "foreign-topic"]},
        {"name": "VerifC07_TwoSubscribers", "native": False, "quick": {"params": [0, 1], "flags": ["-preempt", "1"]}, "thorough": {"params": [0, 1], "flags": ["-preempt", "2", "-par", "4"]},
         "expect_reach": ["end", "builder-made"]},
        {"name": "VerifC07_ConcurrentPublish", "native": False, "quick": {"params": [0], "flags": ["-preempt", "1"]}, "thorough": {"params": [0], "flags": ["-preempt", "3"]}},
        {"name": "VerifC07_Backlog", "native": False, "quick": {"params": [0], "flags": ["-preempt", "1"]}, "thorough": {"params": [0], "flags": ["-preempt", "2"]}},
        {"name": "VerifC07_Backlog", "native": False, "flags": ["-max-decisions", "4000"], "quick": {"params": [1], "flags": ["-preempt", "0"]}, "thorough": {"params": [1], "flags": ["-preempt", "0"]},
         "expect_reach": ["end", "backlog-exceeds-queue"]},
        {"name": "VerifC07_StompSub", "native": False, "quick": {"params": [1, 2], "bound": 1, "flags": ["-preempt", "1"]},
         "thorough": {"params": [1, 2, 3], "bound": 2, "flags": ["-preempt", "1", "-par", "5"], "procs": 3},
         "expect_reach": ["end", "valid", "short-frame", "bad-header", "other-op", "handler-fails"]},
    ])],
    "gen_groups": [
        {"program": "c02_basic", "pkg": "c02basic", "entries": [
            {"name": "VerifC07_GeneratedPubSub", "flags": ["-max-decisions", "3000"], "quick": {"params": [0, 1], "bound": 1}, "thorough": {"params": [0, 1, 2], "bound": 1, "flags": ["-par", "4"]},
             "expect_reach": ["end", "own", "other-operation", "other-topic"]},
        ]},
    ],
    "level_text": "Bounded symbolic execution with threads of the real publish path (FStandardClient.Publish/prepareMessage, fNatsPublisherTransport.Publish) and the real subscriber transports (fNatsSubscriberTransport.Subscribe/putMessageToWorkerQueue/worker/Unsubscribe; fStompSubscriberTransport.Subscribe/processMessages/ackMessage/Unsubscribe) with a receive callback of the generated shape (ReadRequestHeader, ReadMessageBegin, op check, payload, handler): for every sequence of n messages, each one valid (symbolic payload and header), shorter than 4 bytes, with a corrupt header block, for another operation, on another topic, or (STOMP) with a failing handler, the handler runs exactly once per valid message of this topic and operation, in publish order, with equal payload, header and correlation id; bad messages never stop later ones (a lost message is a deadlock of the harness); STOMP acks exactly the successfully handled messages once; nothing published after Unsubscribe returned reaches the handler; no goroutine panics; two subscribers made by one factory (builder-made or plain) on different topics each receive exactly their own messages, and unsubscribing one leaves the other working. Outside: real brokers, multi-worker ordering.",
    "level_note": "Trusted: go/ssa, gose interpreter and scheduler model, z3. " + NATS_NOTE + SCHED_NOTE,
    "bounds": {"quick": "n <= 2 messages, payload 1 byte, header 1 byte, delay bound 1", "thorough": "n <= 3 messages, payload 2 bytes"},
    "assumptions": ["broker contract as modelled", "single worker (default)"],
}

SPECS["C20"] = {
    "level": "model_checking",
    "groups": [dict(LIBGO, entries=[
        {"name": "VerifC20_ShutdownDrains", "native": False, "quick": {"params": [0, 4], "bound": 2, "flags": ["-preempt", "2", "-par", "4"], "procs": 2},
         "thorough": {"params": [0, 1, 2, 3, 4, 5], "bound": 3, "flags": ["-preempt", "2", "-par", "2"], "procs": 6},
         "expect_reach": ["end", "racing-request", "burst-exceeds-queue", "stop-races-startup"]},
        {"name": "VerifC20_ShutdownDrains", "native": False, "tiers": ["quick"], "quick": {"params": [1, 2, 3, 5, 6, 10], "bound": 2, "flags": ["-preempt", "1"], "procs": 6},
         "expect_reach": ["end", "racing-request", "burst-exceeds-queue", "two-subjects"]},
        {"name": "VerifC20_ShutdownDrains", "native": False, "tiers": ["thorough"], "thorough": {"params": [6, 7, 8, 9, 10, 11], "bound": 2, "flags": ["-preempt", "2", "-par", "2"], "procs": 6},
         "expect_reach": ["end", "racing-request", "two-subjects"]},
    ])],
    "level_text": "Bounded symbolic execution with threads of the real fNatsServer (Serve, handler, worker, processFrame, Stop, drainNatsMessages) with a counting processor whose handler takes an arbitrary time, for workers in {1,2} x queue length in {0,1,2}, with a handler that is fast or lets 10 s of virtual time pass: r requests received before Stop is called, optionally one racing with Stop and one arriving after Stop returned: every request received before Stop is processed exactly once and its reply is published before Serve returns; the late one is not processed; the racing one at most once and answered iff processed; Stop and Serve return (no deadlock) also when the burst exceeds queue+workers. Outside: real nats.go internals.",
    "level_note": "Trusted: go/ssa, gose interpreter and scheduler model, z3. " + NATS_NOTE + SCHED_NOTE,
    "bounds": {"quick": "r <= 2 requests before Stop; delay bound 2 for (workers, queue) = (1,0) and (2,1), delay bound 1 for the other four configurations", "thorough": "r <= 3, delay bound 2 for all six configurations"},
    "assumptions": ["nats.go Drain/Flush/Barrier contract as modelled", "worker count >= 1"],
}

SPECS["C14"] = {
    "level": "model_checking",
    "groups": [dict(LIBGO, entries=[
        {"name": "VerifC14_ProcessorReplies", "quick": {"params": [0, 1, 2, 3, 4], "bound": 0, "procs": 5}, "thorough": {"params": [0, 1, 2, 3, 4], "bound": 1, "procs": 5, "flags": ["-par", "2"]},
         "expect_reach": ["end"]},
        {"name": "VerifC14_SimpleServerLoop", "native": False, "quick": {"params": [0, 1, 2, 3, 4], "flags": ["-preempt", "1"], "procs": 5}, "thorough": {"params": [0, 1, 2, 3, 4], "flags": ["-preempt", "2"], "procs": 5},
         "expect_reach": ["end"]},
        {"name": "VerifC14_ConcurrentReplies", "native": False, "quick": {"params": [0, 1, 4], "flags": ["-preempt", "1"], "procs": 3}, "thorough": {"params": [0, 1, 2, 3, 4], "flags": ["-preempt", "2", "-par", "2"], "procs": 5}},
        {"name": "VerifC14_NatsServerReplies", "native": False, "quick": {"params": [0, 1, 2, 3, 4], "bound": 0, "procs": 5}, "thorough": {"params": [0, 1, 2, 3, 4], "bound": 1, "procs": 5}},
        {"name": "VerifC14_NatsServeWorkers", "native": False, "quick": {"params": [0, 1], "flags": ["-preempt", "1"]}, "thorough": {"params": [0, 1], "flags": ["-preempt", "2"]}},
        {"name": "VerifC14_HTTPReplies", "quick": {"params": [0, 1, 2, 3, 4, 5], "procs": 6}, "thorough": {"params": [0, 1, 2, 3, 4, 5], "procs": 6}, "expect_reach": ["end", "over-limit"]},
        {"name": "VerifC14_SurvivesFailedReply", "native": False, "quick": {"params": [0, 1, 2, 3, 4], "procs": 5}, "thorough": {"params": [0, 1, 2, 3, 4], "procs": 5},
         "expect_reach": ["end", "first-answered", "first-unanswerable"]},
    ])],
    "level_text": "Bounded symbolic execution of the real server reply path (FBaseProcessor.Process, FBaseProcessorFunction.SendReply/SendError/sendError/trapError, Method.Invoke through the reflect boundary, FSimpleServer.accept with TFramedTransport) with processor functions written exactly in the shape the generator emits (two-way 'ping' with a declared exception, oneway 'fire') and the real TBinaryProtocol: for every request kind (known method, unknown method name of arbitrary bytes, arguments truncated at 1..6 bytes from the end, wrong-typed argument field, oneway) x handler outcome (value, declared exception, undeclared error, TApplicationException with any type id 0..200) the output is exactly one well-formed frame (judged by an independent reference reader) carrying the request's op id and correlation id and the right REPLY / EXCEPTION kind (UNKNOWN_METHOD, PROTOCOL_ERROR, INTERNAL_ERROR, the handler's own type), nothing for a successful oneway; the handler runs exactly once with the sent argument; a following request on the same processor / the same connection loop is answered correctly; with two requests processed concurrently on a shared output protocol every write and flush happens under the write mutex (lock-discipline monitor). Outside: the generated processor code itself (hand-written equivalent here; the generated one is exercised by C03), compact/JSON protocols.",
    "level_note": "Trusted: go/ssa, gose interpreter and scheduler model, z3; reflect is an engine boundary (ValueOf/Call/Interface/MethodByName implemented by the engine). " + SCHED_NOTE,
    "bounds": {"quick": "argument strings 0 bytes + fixed, 2 requests in a row, delay bound 1", "thorough": "argument strings 0..1 symbolic bytes, delay bound 2"},
    "assumptions": [],
}

PARSER = {"dir": REPO + "/compiler/parser", "overlay": "parser"}

SPECS["C16"] = {
    "level": "model_checking",
    "groups": [dict(LIBGO, entries=[
        {"name": "VerifC16_Nesting", "quick": {"params": [0, 1, 4, 5, 6, 9, 10], "procs": 7}, "thorough": {"params": list(range(16)), "procs": 8, "flags": ["-par", "2"]},
         "expect_reach": ["end", "value", "error", "added-later"]},
        {"name": "VerifC16_SharedSlice", "quick": {"params": [0]}, "thorough": {"params": [0]}, "expect_reach": ["end", "with-providers", "added-later"]},
        {"name": "VerifC16_ErrorOnly", "quick": {"params": [0]}, "thorough": {"params": [0]}, "expect_reach": ["end", "struct-value-error", "zero-code-error"]},
        {"name": "VerifC16_ProcessorAddMiddleware", "quick": {"params": [0]}, "thorough": {"params": [0]}, "expect_reach": ["end", "two-added"]},
    ])],
    "gen_groups": [
        {"program": "c02_basic", "pkg": "c02basic", "entries": [
            {"name": "VerifC16_GeneratedWiring", "flags": ["-max-decisions", "3000"], "quick": {"params": [0, 1, 2, 3], "procs": 4}, "thorough": {"params": [0, 1, 2, 3], "procs": 4},
             "expect_reach": ["end", "client", "processor", "publisher", "subscriber"]},
            {"name": "VerifC16_GeneratedArgs", "flags": ["-max-decisions", "3000"], "quick": {"params": [0]}, "thorough": {"params": [0]}},
            {"name": "VerifC16_GeneratedSubscribers", "flags": ["-max-decisions", "3000"], "quick": {"params": [0]}, "thorough": {"params": [0]}, "expect_reach": ["end", "spare-capacity"]},
        ]},
    ],
    "level_text": "Bounded symbolic execution of the real middleware machinery (NewMethod, composeMiddleware, newInvocationHandler, Method.Invoke, Method.AddMiddleware, FServiceProvider.GetMiddleware) wired exactly as every generated constructor wires it (middleware = append(middleware, provider.GetMiddleware()...); NewMethod(target, target.method, name, middleware)), with a constructor middleware and b provider middleware (a,b <= 2; thorough <= 3), each one logging entry/exit and - under symbolic flags - rewriting the argument and/or the result with a symbolic suffix, the caller's variadic slice with or without spare capacity, optionally one AddMiddleware afterwards, target returning a value or an error: the target is invoked exactly once; every middleware is entered and left exactly once; entry order is [added later] provider[b-1..0] constructor[a-1..0], exit order the reverse; the target sees the argument with all rewrites applied outermost-first and the caller sees the result with all rewrites innermost-first; an error passes through; two methods built one after the other from the same variadic slice (with 0..2 spare capacity, with or without provider middleware, with or without middleware added later) each run exactly their own chain; for methods whose only result is an error a middleware that rewrites the error of one call never leaks into another call. Outside: more than 3+3 middleware, generated code of programs beyond the catalogue.",
    "level_note": "Trusted: go/ssa, gose interpreter, z3; reflect is an engine boundary (ValueOf/Call/Interface/TypeOf/MethodByName implemented by the engine with Go's argument-assignability and zero-Value panics).",
    "bounds": {"quick": "a,b <= 2 (7 of the 9 combinations)", "thorough": "a,b <= 3"},
    "assumptions": [],
}

SPECS["C18"] = {
    "level": "model_checking",
    "groups": [dict(PARSER, entries=[
        {"name": "VerifC18_Fields", "native": False, "quick": {"params": [0, 1, 2, 3, 4], "bound": 0, "procs": 5}, "thorough": {"params": list(range(20)), "bound": 0, "procs": 10, "timeout": 5000}, "expect_reach": ["end", "must-fail", "must-pass", "unspecified"]},
        {"name": "VerifC18_FieldsNested", "native": False, "tiers": ["thorough"], "thorough": {"params": [0, 1, 2, 3, 4], "bound": 1, "procs": 5, "timeout": 5000}, "expect_reach": ["end", "must-fail", "must-pass"]},
        {"name": "VerifC18_FieldsWide", "native": False, "tiers": ["thorough"], "thorough": {"params": [0, 1, 2, 3, 4], "bound": 0, "procs": 5, "timeout": 5000}, "expect_reach": ["end", "must-fail", "must-pass"]},
        {"name": "VerifC18_TypedefShapes", "native": False, "quick": {"params": [0, 1, 2, 3], "bound": 0, "procs": 2}, "thorough": {"params": [0, 1, 2, 3], "bound": 0, "procs": 2}, "expect_reach": ["end", "must-fail", "must-pass"]},
        {"name": "VerifC18_Services", "native": False, "quick": {"params": [0, 1, 2, 3, 4, 5], "bound": 0, "procs": 6}, "thorough": {"params": [0, 1, 2, 3, 4, 5], "bound": 0, "procs": 6, "flags": ["-par", "2"]}, "expect_reach": ["end", "must-fail", "must-pass", "unspecified"]},
        {"name": "VerifC18_AddedField", "native": False, "quick": {"params": [0, 1, 2], "bound": 0, "procs": 3}, "thorough": {"params": [0, 1, 2], "bound": 0, "procs": 3}, "expect_reach": ["end", "must-fail", "must-pass", "added-required"]},
        {"name": "VerifC18_EnumsScopes", "native": False, "quick": {"params": [0, 1, 2], "bound": 0, "procs": 3, "flags": ["-par", "2"]}, "thorough": {"params": [0, 1, 2], "bound": 0, "procs": 3, "flags": ["-par", "2"]}, "expect_reach": ["end", "must-fail", "must-pass", "unspecified"]},
    ])],
    "level_text": "Bounded symbolic execution of the real Auditor.Audit (checkScopes, checkScopePrefix, normalizeScopePrefix, checkOperations, checkNamespaces, checkConstants, checkEnums, checkEnumValues, checkStructLike, checkServices, checkServiceMethods, checkFields, makeFieldsMap, checkType, Frugal.UnderlyingType) on PAIRS OF MODELS built by the harness (ParseFrugal is redirected; the text-level audit goes through the PEG parser and is outside): (1) field lists of a struct / exception / union / method arguments / throws clause with symbolic field ids (1..3), symbolic requiredness, presence of each field, type from {two scalars, a typedef whose meaning differs between old and new, a struct} (thorough: list/map nesting one level, a typedef that stands for a container, and a second field on either side); (1b) a typedef standing for a scalar, a list or a map whose element types differ between old and new, used as field / return / argument element / operation type; (2) services: service kept/removed, method kept/removed, oneway flags, return types incl. void, extends in {none, Base, Other}, throws present/absent; (3) enums with symbolic value numbers, scopes with 6 prefixes x kept/removed operation x operation type, namespaces/constants. A three-valued reference oracle written from the statement decides MUST-FAIL (removed/retyped field, argument, method, operation, service, scope, struct; requiredness change; added required field; removed enum value; changed prefix modulo variable names; oneway change; changed or removed base; exception-set change on a void method) / MUST-PASS (identical, renames, added optional/default fields, renamed prefix variables, namespace/constant changes, additions) / UNSPECIFIED (removing an optional field, adding 'extends', removing a whole enum, exception-set change on a non-void method: counted, not asserted). Outside: audit of IDL text (parser), includes across files, deeper nesting.",
    "level_note": "Trusted: go/ssa, gose interpreter, z3; fmt/reflect.DeepEqual are engine boundaries; ParseFrugal is redirected to the harness models, so counterexamples are confirmed by pinned concrete re-execution in the engine rather than natively. The oracle's classification of the unspecified edits is stated above and never raises an alarm.",
    "bounds": {"quick": "one general field slot per side; scalar/typedef/struct types", "thorough": "two field slots per side; one container level"},
    "assumptions": [],
}

GOLANG = {"dir": REPO + "/compiler/generator/golang", "overlay": "golang"}
DARTLANG = {"dir": REPO + "/compiler/generator/dartlang", "overlay": "dartlang"}

SPECS["C11"] = {
    "level": "model_checking",
    "groups": [
        dict(PARSER, entries=[
            {"name": "VerifC11_IncludedTypedefs", "flags": ["-unwind-violation", "-max-decisions", "1500", "-max-steps", "200000"], "quick": {"params": [0, 1]}, "thorough": {"params": [0, 1]}, "expect_reach": ["end", "same-name-re-export"]},
            {"name": "VerifC11_TypedefResolution", "flags": ["-unwind-violation", "-max-decisions", "1500"], "quick": {"params": [0, 1]}, "thorough": {"params": [0, 1, 2], "flags": ["-par", "6"]},
             "expect_reach": ["end", "accepted", "rejected"]},
            {"name": "VerifC11_ReferencedIncludes", "quick": {"params": [0]}, "thorough": {"params": [0]}},
            {"name": "VerifC11_EnumNumbering", "quick": {"params": [0, 1, 2]}, "thorough": {"params": [0, 1, 2, 3]}},
            {"name": "VerifC11_TypeValidation", "quick": {"params": [0, 1, 2], "procs": 3}, "thorough": {"params": [0, 1, 2], "procs": 3}, "expect_reach": ["end", "undefined-type", "all-defined"]},
        ]),
        dict(GOLANG, entries=[
            {"name": "VerifC11_GoIdentifiers", "quick": {"params": [1, 2, 3, 4], "procs": 4}, "thorough": {"params": [1, 2, 3, 4, 5], "procs": 5, "flags": ["-par", "3"]}},
        ]),
        dict(DARTLANG, entries=[
            {"name": "VerifC11_DartIdentifiers", "quick": {"params": [1, 2, 3, 4], "procs": 4}, "thorough": {"params": [1, 2, 3, 4, 5, 6], "procs": 6}},
        ]),
    ],
    "level_text": "KERNEL SCOPE ONLY. The full statement (every valid program x target x option set compiles to well-formed source; every other text gives a diagnostic) runs through the PEG parser, eight generators, file I/O and goimports and cannot be encoded; what is decided here are the pure mechanisms the property anchors: (1) the real Frugal.validate() + UnderlyingType/IsStruct/IsUnion/IsEnum on programs with k <= 2 (3) typedefs whose targets are ARBITRARY (a base type, a struct, any typedef incl. itself, a list/map of those, an unknown name - symbolic 3-byte names): whenever validate accepts, type resolution terminates within the unwinding bound (exceeding it IS the counterexample, replayed natively as a fatal stack overflow) and yields a non-typedef; (2) the Go generator's identifier helpers snakeToCamel/title/titleServiceName/startsWithInitialism/includeNameToReference/includeNameToImport and (3) the Dart generator's snakeToCamel/toFileName/toScreamingCapsConstant/toFieldName/lowercaseFirstCharacter/toLibraryName on EVERY grammar-valid identifier (Letter|_)(Letter|Digit|_)* of length 1..4 (5-6): no panic. Outside (not claimed): parser totality, well-formedness of generated files, Java/Python/HTML/JSON generators, option handling.",
    "level_note": "Trusted: go/ssa, gose interpreter (path witnesses re-run natively), z3. strings/unicode are executed from their real SSA; ASCII runes stay symbolic, a non-ASCII rune would be concretised (identifiers are ASCII by the grammar).",
    "bounds": {"quick": "k <= 2 typedefs; identifiers of 1..4 characters", "thorough": "k <= 3 typedefs; identifiers up to 5 (Go) / 6 (Dart) characters"},
    "assumptions": ["identifier alphabet as in grammar.peg (ASCII letters, digits, underscore; dots excluded)"],
}

SPECS["C08"] = {
    "level": "translation_validation",
    "custom": "c08",
    "groups": [],
    "level_text": "Translation validation of the generators' topic construction against the specification topic = [prefix with its variables substituted, delimiter] Title(scope) delimiter operation. For every case of a catalogue (scope-name shapes Alpha / beta / gamma_delta / EPSILON x prefixes none, a.b, a.{user}, {user}.a, a.{user}.b.{kind}, {user} x -delim '.', '/' (thorough: ':' and '::')) the REAL compiler, built from /repo at check time, emits Go, Java, Dart, Python (plain, asyncio, tornado). Go: gose executes the generated publisher (NewXPublisher, PublishCreated, the Method/middleware plumbing) and subscriber (SubscribeCreated) symbolically down to harness transports, with variable values as symbolic strings of 0..2 arbitrary bytes, and z3 decides publisher topic == subscriber topic == specification. Java/Dart/Python: the emitted prefix/topic statements and the DELIMITER constant are parsed into a rope of literals and variables (unparseable output is inconclusive, never a pass) and z3's string theory decides rope == specification rope for ALL variable values (unbounded). Outside: scope/prefix/delimiter combinations beyond the catalogue (programs are enumerated, only run-time values are symbolic), operation names other than Created.",
    "level_note": "Trusted: the extractor (60 lines of regular expressions per language, fails closed), z3 4.8.12 sequence theory, gose for the Go part; the specification rope is written in c08.py from the property statement and README.",
    "bounds": {"quick": "2 delimiters x 12 scopes x (Go executed + 9 extracted publisher/subscriber sources)", "thorough": "4 delimiters x 24 scopes"},
    "assumptions": ["strings.Title semantics for ASCII identifiers"],
}

SPECS["C02"] = {
    "level": "model_checking",
    "custom": "c02",
    "groups": [],
    "quick_programs": ["c02_base.frugal", "c02_basic.frugal", "c02_nested.frugal"],
    "entries_only": {"quick": {"c02_nested": ["VerifC02_Level", "VerifC02_Label", "VerifC02_Tagged"]}},
    "elems": {"quick": 1, "thorough": 2},
    "slim_programs": {"quick": ["c02_basic.frugal"], "thorough": ["c02_basic.frugal"]},
    "slim_entries": {"quick": ["VerifC02_Inner", "VerifC02_Scalars", "VerifC02_Shades", "VerifC02_Choice", "VerifC02_Oops", "VerifC02_Strict"]},
    "elems_override": {"thorough": {"VerifC02_Containers": 1, "VerifC02_Shape": 1, "VerifC02_Deep": 1, "VerifC02_Either": 1, "VerifC02_Child_build_result": 1, "VerifC02_Child_points_args": 1}},
    "wall": {"quick": 240, "thorough": 900},
    "level_text": "Bounded symbolic model checking of GENERATED code: for every program of the catalogue /verif/catalogue/c02_*.frugal the real compiler (built from /repo at check time) emits Go, and gose executes the emitted Read and Write of every struct, union, exception and every service args/result struct against a scripted + recording thrift.TProtocol: a value tree with symbolic scalars/strings/binaries, symbolic presence of every optional field, symbolic union selector and containers of 0..1 (thorough 0..2) elements is encoded as a conforming event stream (fields in declaration or reversed order; optionally one unknown field of symbolic id and one of four types anywhere; or one required field missing), fed to the generated Read, and the resulting object is written by the generated Write: Read must consume the encoding step by step and accept it (reject it when a required field is missing), skip exactly the unknown field with its wire type, and Write must emit exactly the declared field ids, wire types, field and struct names and the decoded values, required and default fields always, optional fields iff set, one field for a union; two-element maps/sets in either order. The oracle model (ids, wire types after typedef/enum/include resolution, requiredness, names) is read from the IDL text by idlmini.py, independently of the generator. Because the generated code only talks to the TProtocol interface the result is protocol independent; thrift's binary/compact/JSON implementations are trusted. Outside: programs beyond the catalogue (programs are enumerated, values symbolic), containers with more elements, default values of absent default-requiredness fields, doubles other than three constants.",
    "level_note": "Trusted: go/ssa, gose interpreter, z3; idlmini.py as the oracle's IDL reader; the scripted TProtocol in c02_harness.go.tmpl.",
    "bounds": {"quick": "catalogue programs c02_basic (all types; the six data types again with the `slim` generator option), c02_base, and of c02_nested (generated recursively with its include, -r) the types Level, Label and Tagged (a typedef name declared in both files with different base types; c02_base is checked on the output of that recursive run); containers 0..1 elements; strings/binaries 0..2 bytes", "thorough": "all catalogue programs; containers 0..2 elements (0..1 for the six types with nested or several containers: Containers, Shape, Deep, Either, Child.build result, Child.points args, whose path count exceeds the wall limit at 2)"},
    "assumptions": ["catalogue IDL files follow the one-field-per-line layout idlmini.py reads"],
}

SPECS["C03"] = {
    "level": "model_checking",
    "custom": "c03",
    "groups": [],
    "gen_groups": [
        {"program": "c02_basic", "pkg": "c02basic", "entries": [
            {"name": "VerifC03_Echo", "quick": {"params": [0], "bound": 1}, "thorough": {"params": [0], "bound": 2, "flags": ["-par", "4"]},
             "expect_reach": ["end", "value", "declared", "undeclared", "app-exception", "nil-value"]},
            {"name": "VerifC03_EchoCompact", "quick": {"params": [0], "bound": 1}, "thorough": {"params": [0], "bound": 2, "flags": ["-par", "4"]},
             "expect_reach": ["end", "value", "declared", "undeclared", "app-exception", "nil-value"]},
            {"name": "VerifC03_VoidThrows", "quick": {"params": [0], "bound": 1}, "thorough": {"params": [0], "bound": 2}, "expect_reach": ["end", "void-ok", "void-declared-1", "void-declared-2"]},
            {"name": "VerifC03_PingFire", "quick": {"params": [0, 1], "bound": 1}, "thorough": {"params": [0, 1], "bound": 2}, "expect_reach": ["end", "ping", "fire"]},
            {"name": "VerifC03_ConcurrentCalls", "native": False, "flags": ["-preempt", "1"], "quick": {"params": [0]}, "thorough": {"params": [0], "flags": ["-preempt", "2"]}},
            {"name": "VerifC03_AdapterCalls", "native": False, "flags": ["-preempt", "1", "-race"], "quick": {"params": [0, 1], "procs": 2}, "thorough": {"params": [0, 1], "procs": 2}},
            {"name": "VerifC03_OversizeReply", "native": False, "quick": {"params": [0]}, "thorough": {"params": [0]}},
            {"name": "VerifC03_Names", "quick": {"params": [0, 1, 2, 3], "bound": 1}, "thorough": {"params": [0, 1, 2, 3], "bound": 2}, "expect_reach": ["end", "out-of-order-ids", "typedef-enum-return"]},
        ]},
        {"program": "c02_nested", "includes": ["c02_base"], "pkg": "c02nested", "entries": [
            {"name": "VerifC03_Inherited", "quick": {"params": [0], "bound": 1}, "thorough": {"params": [0], "bound": 1}, "expect_reach": ["end", "denied", "built"]},
        ]},
    ],
    "level_text": "Bounded symbolic model checking of an end-to-end call through GENERATED code: for the catalogue services Basic (echo with struct argument/result and a declared exception, also returning (nil, nil); void ping; void remove with two declared exceptions; oneway fire) and Child extends c02_base.Parent (inherited origin from an include; build with a typedef'd list of an included struct, an included enum and an included exception) the real compiler emits Go, and gose executes generated F<S>Client method -> Method.Invoke -> FStandardClient.Call/Oneway/prepareMessage/processReply -> loop-back FTransport -> FBaseProcessor.Process -> generated processor function -> Method.Invoke -> handler and back, with the real TBinaryProtocol and header code: every argument (scalars, optional presence, short strings, enum values incl. undeclared numbers) and the handler outcome (value / declared exception with symbolic fields / undeclared error / TApplicationException of any type 0..100) symbolic: the handler is invoked exactly once with equal arguments and the caller observes exactly the outcome (value, the declared exception with equal fields, INTERNAL_ERROR, the handler's own application type); a successful oneway produces no reply; the inherited method behaves identically. Outside: TCP/HTTP/NATS plumbing (byte transport covered by C05/C12/C13/C14), compact and JSON protocols, programs beyond the catalogue.",
    "level_note": "Trusted: go/ssa, gose interpreter (path witnesses re-run natively inside the generated package), z3; reflect is an engine boundary.",
    "bounds": {"quick": "strings 0..1 bytes", "thorough": "strings 0..2 bytes"},
    "assumptions": [],
}


# ---- what the entries added later decide (appended to the level texts above) ----
RACE_NOTE = ("Every entry that runs goroutines also runs the engine's happens-before data-race monitor (vector clocks over mutexes, channels, WaitGroup, Once, atomics, sync.Pool, go statements, timers and "
             "context cancellation; FastTrack-style last-write / last-reads per heap cell, map and slice element) on the accesses made by the code under test: two conflicting accesses not ordered by "
             "happens-before are reported even if the explored schedule did not interleave them badly. Harness accesses are treated as synchronisation, so the monitor can miss races, never invent them.")

_MORE = {
    "C01": " Added: (e) two goroutines calling through one FStandardClient over a transport that looks at the payload only after a scheduling point (each caller gets the answer to its own symbolic argument, handler sees each once); the two callers of (b) may use clones of a context implemented OUTSIDE the package (generic branch of Clone: distinct op ids), and responses may arrive one per read or coalesced into one segment.",
    "C03": " Added: the Echo entry again over thrift's COMPACT protocol (integers from -70..70 so that one- and two-byte varints of both signs occur; the JSON protocol needs library internals the engine does not interpret and stays outside); methods whose names differ only in capitalisation (fetchUrl / fetchURL), a method whose argument ids are not in declaration order (route(2: to, 1: sender)), a typedef-of-enum argument and return type, and two goroutines calling through one generated client over a transport that reads the frame late (each caller observes the value for its own argument).",
    "C04": " Added: the stream reader is also driven through a transport that hands out 1..3 bytes per Read (same map, same rest); a header block written by another implementation (any user headers, op id mandatory, correlation id and timeout optional) becomes a context whose request headers are exactly the wire map and whose response headers echo exactly op id (+ cid iff present); the response direction leaves request headers untouched.",
    "C05": " On the arbitrary-buffer entries exceeding the unwinding bound (400 decisions on one path; the real loops are bounded by the buffer length, at most 24) is itself reported as a violation: a receive path that does not terminate. Added: the adapter transport's read loop on an arbitrary socket stream; fNatsServer.processFrame and a subscriber callback of the generated shape on arbitrary frames; a well-formed ~110-byte request / publish frame with an arbitrary 4-byte window at every (second) offset through server -> processor -> processor function and through the subscriber callback, each followed by a well-formed message that must still be served; the HTTP handler and HTTP client transport on arbitrary bodies, and a two-way FStandardClient.Call over HTTP whose peer answers with an arbitrary decoded body incl. the empty frame; a reply or error reply that cannot be written into a bounded output buffer (any limit 1..250) leaves the processor usable (no leaked write mutex).",
    "C06": " Added: frames may be coalesced into one read segment; NATS client transport: a second request on the SAME FContext while the first is in flight is rejected and must not disturb the first, whose response (arriving afterwards) still completes it (timers fire only when nothing else can run).",
    "C07": " Added: two goroutines publishing through one scope client over a publisher that looks at the payload late (each topic receives the frame meant for it); a backlog larger than the 64-slot work queue with a slow handler (nothing dropped, order kept; NATS channel subscriptions are modelled with their drop-on-full semantics); GENERATED publisher and subscriber of the catalogue scope `Events prefix a.{user}` over a bus transport (exactly once, own operation and topic variable only, headers incl. _topic_user).",
    "C09": " Added: the handler may make an onward FStandardClient.Call with the inbound context itself or with a clone before replying (reply still carries op id, cid and the handler's response header); the same context is used for a second call after SetTimeout with nothing else touched (the second handler observes the new timeout).",
    "C11": " Added: (4) Frugal.validate() on programs in which an undefined type name may occur bare or as list / set / map element at struct fields (after a valid container of the same kind), method arguments / return types and scope operations: rejected iff it occurs; (5) the semantic actions the grammar runs for enum declarations (onEnumValue1 / onEnum1 of grammar.peg.go, called directly) on 2..4 (5) values with any mix of implicit and arbitrary explicit numbers: numbering never makes an implicit value collide with an earlier one.",
    "C12": " Added: (e) real HTTP client transport with a response size limit against the real handler (Do model forwards the real *http.Request): for 12 limits x 7 reply sizes around them, twice in a row, the client either receives the reply intact or RESPONSE_TOO_LARGE exactly when the server answered 413; (f) see C05: a reply that does not fit a bounded buffer never wedges the processor.",
    "C13": " Added: (d) HTTP transport with a peer model of http.Client.Do that honours the request context (silent; drops the connection after 1/4..3/4 of the timeout and is silent afterwards; answers after that time): Request / Oneway return no later than the FContext timeout in virtual time, TIMED_OUT for a silent peer; the same elapsed-time bound is asserted for the adapter and NATS transports; NATS with a connection that accepts writes but never answers PING (Flush blocks for nats.go's own 10 s).",
    "C14": " Added: the same request kinds x outcomes through fNatsServer.processFrame (exactly one message on the request's reply subject, nothing anywhere else) and through the HTTP handler (incl. a caller whose limit is exceeded: 413, then an unaffected next reply); the NATS server as it runs (Serve, 1..2 workers, requests through the subscription, handler yields): two concurrent requests each get exactly one well-formed reply on their own subject.",
    "C15": " Added: two goroutines calling Open at the same time on a transport whose dial takes time (exactly one succeeds, the other ALREADY_OPEN; one close notification); NATS client transport: Close while the connection is RECONNECTING really closes (cause published, subscription gone) and the transport opens again afterwards.",
    "C16": " Added: FBaseProcessor with a constructor list and 1..2 AddMiddleware calls using closures of one constructor function (each runs exactly once per request, later-added outermost); GENERATED constructors of the catalogue (client, processor, publisher, subscriber): provider middleware wraps constructor middleware, each exactly once; generated route(2: to, 1: sender): client- and server-side middleware see the arguments in the handler's parameter positions and a rewrite of one position changes exactly that parameter; two generated subscribers built from one variadic slice with spare capacity and different providers (known finding F18).",
    "C17": " Added: (b) also serialises the shared context (WriteRequestHeader / WriteResponseHeader) while another goroutine mutates it; (c) also clones a context implemented outside the package through the generic branch of Clone (original, clone and sibling carry three different op ids).",
    "C18": " Added: a field added to 2..3 unchanged fields at any id 1..6 (before, between, after) and any position of the declaration, any modifier, in structs / exceptions / arguments: breaking iff required; throws clauses of 0..2 exceptions on either side (fields of a throws clause are Optional, as the parser makes them).",
    "C20": " Servers listening on TWO subjects (one subscription each, requests alternating between them) are included. The slow handler now blocks for 10 s of virtual time (instead of an instantaneous clock jump), so a Serve that stops waiting for its workers is observable.",
    "C02": " Added: c02_basic again with the `slim` generator option (Read/Write through lib/go/encoder.go); programs with includes are generated with one recursive compiler run (-r) and the catalogue declares same-named types in the including and the included program (struct Level / enum c02_base.Level, struct Label / typedef c02_base.Label).",
    "C08": " Added: one recursive run (-r) over a program that includes another one declaring a scope of the same name with a different prefix, for Java / Dart / Python: each file's publisher and subscriber use the file's own prefix.",
}
for _k, _t in _MORE.items():
    SPECS[_k]["level_text"] += _t
# session 4 (round 4 of independently produced changes)
_MORE4 = {
    "C02": " Session 4: a typedef NAME declared in both the including and the included file with different base types (i32 / i64; struct Tagged, c02_base.Ref) in the recursive run; a catalogue program the compiler REJECTS with its own diagnostic twice in a row is a reproduced violation (the catalogue is valid IDL); union fields with declared defaults are in the catalogue (open finding F25: the value equal to the default is rejected by the generated Read).",
    "C03": " Session 4: VerifC03_AdapterCalls: two goroutines call through one generated client over the REAL adapter transport (framed stream, read loop, registry) with a peer that answers one by one or both replies back to back, the second reply no longer than the first: each caller gets the value for its own argument or TIMED_OUT, never another call's value (race monitor on; delay bound 1 in both tiers: bound 2 did not finish in 7 min).",
    "C04": " Session 4: VerifC04_LargeBlock: one header value of 250 / 1030 / 4100 bytes (thorough: also 1010, 4090, 40000 - below the engine's 65536-element allocation clamp) with a 2-byte symbolic tail next to a small header: layout, stream reader over a transport whose RemainingBytes() is an ARBITRARY 64-bit value (buffered and compressing transports under-report), frame reader.",
    "C05": " Session 4: VerifC05_StompBurst: a burst of 3..4 (thorough 5, same delay bound 1: bound 2 did not finish in 15 min) well-formed STOMP messages over a connection model shaped like go-stomp (ONE process loop serving the bounded write channel - acknowledgements - and the inbound frames with a blocking hand-over to the bounded subscription channel; capacities 1 instead of 20/20/16): every message handled and acknowledged, no deadlock.",
    "C06": " Session 4: VerifC06_ReopenedStream: the inbound stream ends after ANY number of bytes of a frame (inside the size prefix or the body), optionally after a complete exchange; the transport is reopened and the response to a fresh request - the first bytes of the new stream - is delivered.",
    "C07": " Session 4: in VerifC07_NatsPubSub the NATS model treats SUB as asynchronous (the server knows a subscription by itself at some point or at the latest after a Flush round trip on that connection) and the publisher as ANOTHER connection: every message published after Subscribe returned must arrive.",
    "C08": " Session 4: delimiters containing '%' ('%', thorough also '-%-'); java.util.Formatter is modelled exactly in the Java extractor (%s, %%, anything else throws). Found and fixed F27.",
    "C11": " Session 4: VerifC11_IncludedTypedefs: typedefs across an include (typedef of an included typedef, local chain ending in the include, same-name re-export, chain INSIDE the include, typedef of an included struct), bare or as list / map element: validate() accepts, UnderlyingType terminates (200 000-instruction bound reported as a violation) with the base type / included struct, IsStruct agrees. Open finding F26 (two assertions).",
    "C16": " Session 4: in VerifC16_ErrorOnly the error a middleware sets and the error the target returns is a pointer error, a zero-size STRUCT VALUE (like context.DeadlineExceeded) or an integer-based error at its zero value: middleware and caller see exactly that error.",
    "C12": " Session 4: VerifC12_HTTPEndToEndLimit also runs with response limits far above any reply (2^32 and MaxInt64): the limit travels as a decimal header and the within-limit reply must be delivered.",
    "C20": " Session 4: Stop may also be called before the Serve goroutine has executed its first statement (the stop request must not be lost: Serve returns, later requests are not processed).",
}
for _k, _t in _MORE4.items():
    SPECS[_k]["level_text"] += _t
for _k in ("C01", "C03", "C06", "C07", "C13", "C14", "C15", "C17", "C20"):
    SPECS[_k]["level_note"] = SPECS[_k].get("level_note", "") + " " + RACE_NOTE

SPECS["C10"] = {
    "level": "model_checking",
    "groups": [dict(PARSER, entries=[
        {"name": "VerifC10_TypeNames", "quick": {"params": [0, 4, 15, 16, 18], "procs": 5}, "thorough": {"params": list(range(22)), "procs": 11}},
        {"name": "VerifC10_Struct", "quick": {"params": [0, 4], "procs": 2}, "thorough": {"params": list(range(18)), "procs": 9}},
        {"name": "VerifC10_Enum", "quick": {"params": [0, 1], "procs": 2}, "thorough": {"params": [0, 1, 2], "procs": 3}, "expect_reach": ["end", "int-leading-zero", "int-plus-sign"]},
        {"name": "VerifC10_Service", "quick": {"params": [0], "procs": 1}, "thorough": {"params": [0, 1, 2, 3, 4, 5], "procs": 6}},
        {"name": "VerifC10_Scope", "quick": {"params": [0, 3, 4, 5], "procs": 4}, "thorough": {"params": [0, 1, 2, 3, 4, 5], "procs": 6}},
        {"name": "VerifC10_Endings", "quick": {"params": [0, 1, 2], "procs": 3}, "thorough": {"params": [0, 1, 2], "procs": 3}},
        {"name": "VerifC10_Includes", "native": False, "quick": {"params": [0, 1, 2], "procs": 1}, "thorough": {"params": [0, 1, 2, 3], "procs": 4, "timeout": 4000}},
        {"name": "VerifC10_Identifier", "quick": {"params": [0, 2], "bound": 0, "procs": 2}, "thorough": {"params": [0, 1, 2, 3, 4, 5, 6], "bound": 1, "procs": 7, "timeout": 6000}},
    ])],
    "level_text": "BOUNDED. The real generated PEG parser (Parse of compiler/parser/grammar.peg.go: the pigeon matcher, its memoisation and every semantic action, executed from go/ssa) on programs RENDERED by the harness from a small model, with the lexical style and identifier shapes chosen by the engine; z3 decides the branches on symbolic characters. For every rendered program parsing must succeed and the returned model must be exactly the rendered one: (1) a type name of 22 shapes (plain, qualified, underscores, and names that START WITH a keyword: stringy, i32x, booleanish, binaryData, doubles, byteBuf, i16s, i64_t, mapper, listing, settings, voidish, requiredThing, optionalThing, onewayTicket, throwsIt, extendsIt, prefixed) at 8 sites (field, list / map element, typedef target, constant type, return type, argument types incl. optional, throws, scope operation); (2) struct / union / exception with three fields: ids from 3 sets, every rotation of requiredness and of six field types (scalars, list, map, set, qualified name), union members forced optional; (3) enums of 2..4 values with every explicit / implicit mask and explicit numbers from {0,1,5,40}: Thrift's implicit numbering; (4) services with extends in {none, Base, inc.Base}, 1..2 methods, every rotation of {oneway void, void, typed}, 0..2 arguments, 0..2 exceptions (made optional by the parser); (5) scopes with six prefixes (none, literals, variables incl. one-letter and underscore names, a '-' in a literal part) and 1..2 operations; (6) EVERY identifier made of a fixed prefix (none, X, str, i3, voi, requir, onewa) plus 1 (thorough 2) arbitrary identifier characters (symbolic bytes), declared as a struct and used as a field type. (7) statement terminators (newline, ';' on the same or a later line, with blanks or a comment) and file endings (newline, none, trailing blanks, inside a '//' or '#' comment) for namespace / typedef / const / struct / service statements; (8) include resolution and caching: the real parseFrugal on an in-memory file system (os.Open, File.Stat / Name / Close and ParseReader redirected to the harness) for a chain, a diamond and two DIFFERENT files with the same base name in different directories (thorough: with arbitrary one-letter base names, equal or not): every include resolves next to the including file, every file is read once, each program sees the declarations of the file it included. Lexical variation in every program: the separator after each item cycles through ',' ';' nothing from a chosen start, four styles of gap / comment ('', '// c', '# c', '/* c */'). Outside: validate() beyond what parseFrugal runs (C11), constants' values, annotations, doc comments, the JSON generator as a second view, programs larger than these, the inverse direction (texts that must be REJECTED).",
    "level_note": "Trusted: go/ssa, gose interpreter (regexp and unicode tables run from their real SSA), z3; the renderer in the harness is the oracle's source of truth.",
    "bounds": {"quick": "5 of the 22 type-name shapes (plain, stringy, voidish, requiredThing, onewayTicket), 2 of 18 struct rotations, enums of 2..3 values, one-method services without extends, 4 of 6 prefixes, identifiers with one symbolic character after 2 of the 7 prefixes", "thorough": "all shapes and rotations; identifiers with two symbolic characters after all 7 prefixes"},
    "assumptions": [],
}

HTMLGEN = {"dir": REPO + "/compiler/generator/html", "overlay": "html"}
COMPILERPKG = {"dir": REPO + "/compiler", "overlay": "compiler"}

SPECS["C19"] = {
    "level": "model_checking",
    "groups": [dict(HTMLGEN, entries=[
        {"name": "VerifC19_HTMLIndexOrder", "native": False, "quick": {"params": [0, 1]}, "thorough": {"params": [0, 1, 2]}, "expect_reach": ["end", "same-module-name-twice"]},
    ]), dict(COMPILERPKG, entries=[
        {"name": "VerifC19_CompilePath", "native": False, "quick": {"params": [0]}, "thorough": {"params": [0]}},
    ]), dict(PARSER, entries=[
        {"name": "VerifC19_ReferencedIncludes", "native": False, "flags": ["-all-map-orders"], "quick": {"params": [0, 1, 2, 3], "procs": 4}, "thorough": {"params": [0, 1, 2, 3], "procs": 4}},
    ])],
    # every `range` over a Go map in the compiler packages, computed from go/ssa at check time; a site that is
    # not listed here makes the check inconclusive (somebody has to decide whether its order can reach output)
    "maprange": {
        "dir": REPO,
        "known": {
            "compiler/generator/html/generator.go|github.com/Workiva/frugal/compiler/generator/html.transitiveIncludes": "decided by VerifC19_HTMLIndexOrder",
            "compiler/generator/html/generator.go|github.com/Workiva/frugal/compiler/generator/html.transitiveIncludesRec": "decided by VerifC19_HTMLIndexOrder",
            "compiler/generator/dartlang/generator.go|(*github.com/Workiva/frugal/compiler/generator/dartlang.Generator).addToPubspec": "keys of a set, sorted with sort.Strings before use (distinct strings); the function itself does file I/O and YAML and is not executed",
            "compiler/parser/audit.go|(*github.com/Workiva/frugal/compiler/parser.Auditor).checkFields": "order of audit messages only, no generated text",
        },
    },
    "level_text": "KERNEL SCOPE ONLY. The statement is a 2-safety property of whole compiler runs (repetitions, working directory, absolute locations, output directory, file-system order, goimports) and cannot be encoded. What is decided: the only way the ORDER OF A GO MAP can reach generated text. (1) From go/ssa of /repo's compiler packages the check computes every `range` over a map (today 5 sites in 4 functions) and is inconclusive when a site appears that is not in its list. (2) The one site whose order reaches output - the module list of the HTML index (transitiveIncludes: transitive includes collected in a map, appended in map order, sort.Sort by module name) - is executed twice by gose on include graphs of 2..3 (4) files whose module names are chosen from a set (so that files in different directories may share a name), with EVERY iteration order of every map explored independently in both executions (self-composition): both runs must list the modules in the same order. (3) The functions that compute which includes a generated file imports (Scope / Service / Frugal.ReferencedIncludes, ReferencedScopeIncludes, ReferencedServiceIncludes, OrderedIncludes) are executed twice on a model with three includes referenced from scope operations and service methods (plain and as map key), with every range over every map - also the ones the functions create themselves - exploring all orders: both executions return the same sequence (today trivially, because none of them ranges over a map; the entry decides a change that makes one do so). Outside (not claimed): everything else in the statement - cwd / path / output-directory independence, time stamps, goimports, the dart pubspec site (argued, not executed), run-to-run state of the globals package.",
    "level_note": "Trusted: go/ssa, gose interpreter (map iteration orders are engine decisions), z3. sort.Sort is executed from its real SSA.",
    "bounds": {"quick": "include graphs of 2..3 files, 3 candidate module names, all map iteration orders in two executions", "thorough": "up to 4 files"},
    "assumptions": ["map iteration is the only order-nondeterminism of the listed functions (no goroutines, time or randomness: they are sequential pure functions)"],
}

OVERLAYS = {}

HOOK_COMMITS = []

NOT_APPLICABLE = {
}


SPECS["C10"]["level_text"] += " Session 4: integer literals (field ids, argument / exception ids, enum values) are spelled plain, with a leading zero or with an explicit plus sign, cycling with the separator pattern (Thrift's IntConstant is decimal: ('+'|'-')? Digit+)."
SPECS["C19"]["level_text"] += " Session 4: (3) VerifC19_CompilePath: the real compiler.Compile is executed twice for the SAME file from different working directories / path spellings (7 spellings: relative, ./, ../, a/../a, absolute; os.Getwd, exists, parser.ParseFrugal and generateFrugal are recording harness functions): the parser is handed the same absolute cleaned path both times - so Frugal.File / Dir, which generators use for ordering and include lookup, do not depend on the working directory."
