"""Per-property check specifications for vcheck."""

LIBGO = {"dir": "/repo/lib/go", "overlay": "libgo"}


def lengths(n):
    return list(range(0, n + 1))


SPECS = {}

SPECS["C05"] = {
    "level": "model_checking",
    "groups": [dict(LIBGO, entries=[
        {"name": "VerifC05_FramePath", "quick": {"params": lengths(14)}, "thorough": {"params": lengths(22)}, "expect_reach": ["end", "parsed", "rejected"]},
        {"name": "VerifC05_UnmarshalFrame", "quick": {"params": lengths(16)}, "thorough": {"params": lengths(24)}, "expect_reach": ["end", "parsed", "rejected"]},
        {"name": "VerifC05_AddHeaders", "quick": {"params": lengths(16)}, "thorough": {"params": lengths(24)}, "expect_reach": ["end", "parsed", "rejected"]},
        {"name": "VerifC05_StreamPath", "quick": {"params": lengths(13)}, "thorough": {"params": lengths(21)}, "expect_reach": ["end", "parsed", "rejected"]},
        {"name": "VerifC05_ExecuteFrame", "quick": {"params": lengths(12)}, "thorough": {"params": lengths(20)}},
        {"name": "VerifC05_NatsHandler", "quick": {"params": lengths(10)}, "thorough": {"params": lengths(16)}},
    ])],
    "bounds": {"quick": "buffer length 0..10-16 bytes depending on the entry point (one engine process per length), all byte values, capacity = length or length+3",
               "thorough": "buffer length 0..16-24 bytes"},
    "assumptions": [],
}

OVERLAYS = {}
