#!/bin/bash
# runs every claimed check of one tier, one after the other; prints exit code and wall per property
tier=${1:-quick}; shift
props=${@:-C01 C02 C03 C04 C05 C06 C07 C08 C09 C11 C12 C13 C14 C15 C16 C17 C18 C20}
cd "$(dirname "$0")"
for p in $props; do
  s=$(date +%s)
  ./vcheck $p $tier > /tmp/verif_run_${p}_${tier}.log 2>&1
  rc=$?
  echo "$p $tier exit=$rc wall=$(( $(date +%s) - s ))s $(grep -c '^VIOLATION' /tmp/verif_run_${p}_${tier}.log) violations; $(tail -1 /tmp/verif_run_${p}_${tier}.log | cut -c1-200)"
done
