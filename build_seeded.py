#!/usr/bin/env python3
"""Copies the independently produced breaking changes (deliveries of the sub-agents in
/tmp/seed_out/<id>/: patchN.diff, demoN*, metaN.json) that seedeval.py validated into
/verif/seeded/<id>/<n>/ and writes seeded/SUMMARY.md.

Evaluation records used (all produced by seedeval.py / the first-evaluation scripts):
  round 1 (n = 1,2)  first: /tmp/seed_out/round1/eval_*      current: /tmp/seed_out/round3/eval_*
  round 2 (n = 3,4)  first: /tmp/seed_out/first2/ (the checks as committed before the changes existed,
                            /verif@3964ae2, against /repo@0f5ed40)      current: /tmp/seed_out/round3/eval_*
  round 3 (n = 5) and C10 / C19 (n = 1,2)  first: /tmp/seed_out/round4/eval_*   current: /tmp/seed_out/round5/eval_* if present
"""
import json, os, glob, shutil, re

V = os.path.dirname(os.path.abspath(__file__))
OUT = "/tmp/seed_out"
VERDICT = {0: "missed", 1: "caught", 2: "inconclusive"}

# first evaluations that raised an alarm for a reason unrelated to the change do not count as caught
WRONG_REASON = {
    ("C07", "4"): "alarm for an unrelated reason: the change calls a nats.go method the environment model did not have (now modelled; un-modelled methods are inconclusive)",
}
# changes whose deciding entries were written after the sub-agent's report had been read: the first evaluation
# recorded by seedeval is not a fair "before"; what the check as it stood before would have said is stated here
FIRST_OVERRIDE = {
    ("C10", "1"): ("missed", "every rendered program ended with a newline and used separators on the same line; VerifC10_Endings was written afterwards"),
    ("C10", "2"): ("missed", "include resolution was outside the claim; VerifC10_Includes (in-memory file system) was written afterwards"),
    ("C19", "1"): ("inconclusive", "the map-iteration inventory reported the new site (exit 2); VerifC19_ReferencedIncludes, which decides it, was written afterwards"),
}


def load(path):
    try:
        return json.load(open(path))
    except Exception:
        return None


def first_what(out):
    m = re.search(r"what: (.*)", out or "")
    return (m.group(1) if m else "")[:300]


def first_eval(pid, n):
    if (pid, n) in FIRST_OVERRIDE:
        return FIRST_OVERRIDE[(pid, n)]
    if n in ("1", "2") and pid not in ("C10", "C19"):
        r = load("%s/round1/eval_%s_%s.json" % (OUT, pid, n))
        return (VERDICT.get(r.get("check_exit"), "?") if r else "?", "")
    if n in ("3", "4"):
        for line in open(OUT + "/first2/summary.txt"):
            a = line.split()
            if a[0] == pid and a[1] == n:
                v = VERDICT.get(int(a[2].split("=")[1]), "?")
                if (pid, n) in WRONG_REASON:
                    return "missed", WRONG_REASON[(pid, n)]
                return v, ""
        return "?", ""
    r = load("%s/round4/eval_%s_%s.json" % (OUT, pid, n))
    return (VERDICT.get(r.get("check_exit"), "?") if r else "?", "")


def current_eval(pid, n):
    for d in ("round5", "round3", "round4"):
        r = load("%s/%s/eval_%s_%s.json" % (OUT, d, pid, n))
        if r:
            return r, d
    return None, None


rows = []
for patch in sorted(glob.glob(OUT + "/C*/patch*.diff")):
    pid = patch.split("/")[-2]
    n = re.search(r"patch(\d+)\.diff", patch).group(1)
    src = os.path.dirname(patch)
    agent_meta = load("%s/meta%s.json" % (src, n)) or {}
    cur, cur_src = current_eval(pid, n)
    if not cur:
        continue
    valid = bool(cur.get("applies") and cur.get("demo_passes_without") and cur.get("demo_fails_with_change") and cur.get("tests_pass"))
    if not valid:
        continue
    dst = os.path.join(V, "seeded", pid, n)
    os.makedirs(dst, exist_ok=True)
    shutil.copy(patch, os.path.join(dst, "patch.diff"))
    for f in glob.glob("%s/demo%s*" % (src, n)):
        if os.path.isdir(f):
            shutil.copytree(f, os.path.join(dst, os.path.basename(f)), dirs_exist_ok=True)
        else:
            shutil.copy(f, os.path.join(dst, os.path.basename(f)))
    reb = "%s/rebased/%s_%s.diff" % (OUT, pid, n)
    if os.path.exists(reb):
        shutil.copy(reb, os.path.join(dst, "patch.rebased.diff"))
    fv, fnote = first_eval(pid, n)
    cv = VERDICT.get(cur.get("check_exit"), "?")
    rnd = {"1": 1, "2": 1, "3": 2, "4": 2, "5": 3}[n] if pid not in ("C10", "C19") else 3
    meta = {
        "property": pid, "round": rnd,
        "summary": agent_meta.get("summary"), "needs_to_manifest": agent_meta.get("needs"), "files_changed": agent_meta.get("files"),
        "produced_by": "fresh sub-agent given only the property text and a scratch worktree of /repo",
        "base_commit": "0f5ed40 (rounds 1 and 2; patch.rebased.diff, where present, is the hand-ported copy for the current HEAD) / HEAD at the time (round 3)",
        "confirmed_by_me": {
            "patch_applies": cur.get("applies"), "existing_tests_pass_with_change": cur.get("tests_pass"),
            "demo_fails_with_change": cur.get("demo_fails_with_change"), "demo_passes_without": cur.get("demo_passes_without"),
            "how": "seedeval.py: scratch worktree of /repo HEAD, git apply, go test ./... in . and lib/go (up to 3 tries for the NATS port flake), demonstration with and without the change, then ./vcheck <id> quick with VERIF_REPO=<worktree>",
        },
        "first_evaluation": {"verdict": fv, "note": fnote, "meaning": "verdict of the quick check as it stood before the change had been seen"},
        "current_evaluation": {"command": "./vcheck %s quick (VERIF_REPO=<worktree with the change>)" % pid, "exit": cur.get("check_exit"), "verdict": cv,
                               "wall_s": cur.get("check_wall_s"), "first_violation": first_what(cur.get("check_output")), "record": cur_src},
    }
    json.dump(meta, open(os.path.join(dst, "meta.json"), "w"), indent=1)
    rows.append((pid, n, rnd, (agent_meta.get("summary") or "")[:170].replace("|", "/").replace("\n", " "), fv, cv, first_what(cur.get("check_output"))[:120].replace("|", "/")))

table = "| change | round | what it does | first evaluation | now | assertion that fires |\n|---|---|---|---|---|---|\n"
for r in rows:
    table += "| %s/%s | %d | %s | %s | %s | %s |\n" % r
stats = {}
for r in rows:
    s = stats.setdefault(r[2], {"n": 0, "first": 0, "now": 0})
    s["n"] += 1
    s["first"] += r[4] == "caught"
    s["now"] += r[5] == "caught"
head = "# Independently produced breaking changes\n\n" + "\n".join(
    "round %d: %d changes, %d caught at first evaluation, %d caught now" % (k, v["n"], v["first"], v["now"]) for k, v in sorted(stats.items())) + "\n\n"
open(os.path.join(V, "seeded", "SUMMARY.md"), "w").write(head + table)
print(head)
