#!/usr/bin/env python3
"""Copies the independently produced breaking changes that were validated by seedeval.py
from /tmp/seed_out into /verif/seeded/<id>/<n>/ and writes the summary table."""
import json, os, glob, shutil, re

V = os.path.dirname(os.path.abspath(__file__))
rows = []
for ev in sorted(glob.glob("/tmp/seed_out/eval_*.json")):
    r = json.load(open(ev))
    pid, n = r["property"], r["n"]
    src = "/tmp/seed_out/%s" % pid
    meta_src = "%s/meta%s.json" % (src, n)
    if not os.path.exists(meta_src):
        continue
    try:
        agent_meta = json.load(open(meta_src))
    except Exception:
        agent_meta = {"summary": open(meta_src).read()[:500]}
    valid = bool(r.get("applies") and r.get("demo_passes_without") and r.get("demo_fails_with_change") and r.get("tests_pass"))
    if not valid:
        continue
    dst = os.path.join(V, "seeded", pid, str(n))
    os.makedirs(dst, exist_ok=True)
    shutil.copy("%s/patch%s.diff" % (src, n), os.path.join(dst, "patch.diff"))
    for f in glob.glob("%s/demo%s*" % (src, n)):
        shutil.copy(f, os.path.join(dst, os.path.basename(f)))
    reb = "/tmp/seed_out/rebased/%s_%s.diff" % (pid, n)
    if os.path.exists(reb):
        shutil.copy(reb, os.path.join(dst, "patch.rebased.diff"))
    out = r.get("check_output", "")
    first_what = ""
    m = re.search(r"what: (.*)", out)
    if m:
        first_what = m.group(1)[:300]
    verdict = {0: "MISSED (check exits 0)", 1: "caught (VIOLATION, exit 1)", 2: "inconclusive (exit 2)"}.get(r.get("check_exit"), "?")
    r1 = None
    p1 = "/tmp/seed_out/round1/eval_%s_%s.json" % (pid, n)
    if os.path.exists(p1):
        try:
            r1 = {0: "missed", 1: "caught", 2: "inconclusive"}.get(json.load(open(p1)).get("check_exit"), "?")
        except Exception:
            r1 = None
    meta = {
        "property": pid,
        "summary": agent_meta.get("summary"),
        "needs_to_manifest": agent_meta.get("needs"),
        "files_changed": agent_meta.get("files"),
        "produced_by": "fresh sub-agent given only the property text and a scratch worktree",
        "confirmed_by_me": {
            "patch_applies_to_HEAD": r.get("applies"), "existing_tests_pass_with_change": r.get("tests_pass"),
            "demo_fails_with_change": r.get("demo_fails_with_change"), "demo_passes_without": r.get("demo_passes_without"),
            "how": "seedeval.py: scratch worktree of /repo HEAD, git apply, go test ./... in . and lib/go (up to 3 tries for the NATS port flake), demo with and without the change",
        },
        "check_result": {"command": "./vcheck %s %s" % (pid, r.get("tier")), "exit": r.get("check_exit"), "verdict": verdict, "wall_s": r.get("check_wall_s"), "first_violation": first_what,
                         "before_strengthening": r1},
    }
    json.dump(meta, open(os.path.join(dst, "meta.json"), "w"), indent=1)
    rows.append((pid, n, (agent_meta.get("summary") or "")[:150].replace("|", "/").replace("\n", " "), (agent_meta.get("needs") or "")[:120].replace("|", "/").replace("\n", " "), r1 or "-", verdict, first_what[:110].replace("|", "/")))
table = "| property | # | change (independently produced) | needs to manifest | first evaluation | quick check now | first assertion that fails |\n|---|---|---|---|---|---|---|\n"
for row in rows:
    table += "| %s | %s | %s | %s | %s | %s | %s |\n" % row
open(os.path.join(V, "seeded", "SUMMARY.md"), "w").write("# Independently produced breaking changes\n\n" + table)
print(table)
