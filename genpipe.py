"""Helpers for the checks that run on GENERATED code: build the compiler from
/repo's working tree, run it on catalogue IDL, lay the Go output out as a
scratch module whose frugal runtime is /repo/lib/go."""
import os, re, shutil, subprocess

REPO = os.environ.get("VERIF_REPO", "/repo")  # see vspec.py

GOENV = dict(os.environ, GOFLAGS="-mod=mod", GOPROXY="off", GOSUMDB="off", GOTOOLCHAIN="local")


class PipelineError(Exception):
    pass


def build_compiler(scratch):
    exe = os.path.join(scratch, "frugal")
    r = subprocess.run(["go", "build", "-o", exe, "."], cwd=REPO, env=GOENV, capture_output=True, text=True)
    if r.returncode != 0:
        raise PipelineError("compiler does not build: " + r.stderr[-1500:])
    return exe


def run_frugal(exe, idl, gen, out, delim=None, recursive=False):
    cmd = [exe, "--gen", gen, "--out", out]
    if recursive:
        cmd.append("-r")  # one compiler run (one generator instance) for the program and its includes
    if delim is not None:
        cmd += ["--delim", delim]
    cmd.append(idl)
    r = subprocess.run(cmd, capture_output=True, text=True, cwd=os.path.dirname(idl))
    return r.returncode, (r.stdout + r.stderr)


def go_module(scratch):
    """Creates scratch/gomod with go.mod/go.sum for generated packages; returns its path."""
    mod = os.path.join(scratch, "gomod")
    os.makedirs(mod, exist_ok=True)
    src = open(REPO + "/lib/go/go.mod").read()
    reqs = src[src.index("require ("):]
    with open(os.path.join(mod, "go.mod"), "w") as f:
        f.write("module verifgen\n\ngo 1.20\n\nrequire github.com/Workiva/frugal/lib/go v0.0.0\n\nreplace github.com/Workiva/frugal/lib/go => " + REPO + "/lib/go\n\n" + reqs)
    shutil.copy(REPO + "/lib/go/go.sum", os.path.join(mod, "go.sum"))
    return mod


def sync_rt(verif, dst_dir, pkg, with_test=True):
    """Copies the harness run-time into dst_dir (and dst_dir_test) for package pkg."""
    for src, dst in [("libgo/zz_verif_rt.go", os.path.join(dst_dir, "zz_verif_rt.go")),
                     ("libgo_test/zz_verif_replay_test.go", os.path.join(dst_dir + "_test", "zz_verif_replay_test.go"))]:
        s = open(os.path.join(verif, "harness", src)).read()
        s = re.sub(r"^package frugal$", "package " + pkg, s, count=1, flags=re.M)
        os.makedirs(os.path.dirname(dst), exist_ok=True)
        open(dst, "w").write(s)
