"""A deliberately small reader for the catalogue IDL files (which are written in
a restricted layout: one field per line). It is independent of Frugal's own
parser and generators and is the source of the oracle's model."""
import re

BASE = {"bool", "byte", "i8", "i16", "i32", "i64", "double", "string", "binary"}


def parse_type(s):
    s = s.strip()
    m = re.fullmatch(r"(list|set)\s*<(.+)>", s)
    if m:
        return {"k": m.group(1), "elem": parse_type(m.group(2))}
    m = re.fullmatch(r"map\s*<(.+)>", s)
    if m:
        inner, depth = m.group(1), 0
        for i, ch in enumerate(inner):
            depth += ch == "<"
            depth -= ch == ">"
            if ch == "," and depth == 0:
                return {"k": "map", "key": parse_type(inner[:i]), "elem": parse_type(inner[i + 1:])}
        raise ValueError("bad map type " + s)
    if s in BASE:
        return {"k": "i8" if s == "byte" else s}
    return {"k": "named", "name": s}


def parse_fields(lines):
    fields = []
    for ln in lines:
        ln = ln.strip().rstrip(",;")
        if not ln or ln.startswith("//"):
            continue
        m = re.fullmatch(r"(\d+)\s*:\s*(?:(required|optional)\s+)?(.+?)\s+(\w+)(?:\s*=\s*(.+))?", ln)
        if not m:
            raise ValueError("cannot read field line: " + ln)
        fields.append({"id": int(m.group(1)), "req": m.group(2) or "default", "type": parse_type(m.group(3)), "name": m.group(4), "default": m.group(5)})
    return fields


def split_args(s):
    out, depth, cur = [], 0, ""
    for ch in s:
        depth += ch == "<"
        depth -= ch == ">"
        if ch == "," and depth == 0:
            out.append(cur)
            cur = ""
        else:
            cur += ch
    if cur.strip():
        out.append(cur)
    return out


def parse(text):
    model = {"namespace": {}, "typedefs": {}, "enums": {}, "structs": {}, "services": {}, "includes": []}
    text = re.sub(r"//[^\n]*", "", text)
    for m in re.finditer(r"^namespace\s+(\S+)\s+(\S+)", text, re.M):
        model["namespace"][m.group(1)] = m.group(2)
    for m in re.finditer(r'^include\s+"([^"]+)"', text, re.M):
        model["includes"].append(m.group(1))
    for m in re.finditer(r"^typedef\s+(.+?)\s+(\w+)\s*$", text, re.M):
        model["typedefs"][m.group(2)] = parse_type(m.group(1))
    for m in re.finditer(r"^enum\s+(\w+)\s*\{(.*?)\}", text, re.M | re.S):
        vals, nxt = [], 0
        for item in re.split(r"[,\n]", m.group(2)):
            item = item.strip()
            if not item:
                continue
            mm = re.fullmatch(r"(\w+)(?:\s*=\s*(-?\d+))?", item)
            if mm.group(2) is not None:
                nxt = int(mm.group(2))
            vals.append((mm.group(1), nxt))
            nxt += 1
        model["enums"][m.group(1)] = vals
    for m in re.finditer(r"^(struct|union|exception)\s+(\w+)\s*\{(.*?)^\}", text, re.M | re.S):
        model["structs"][m.group(2)] = {"kind": m.group(1), "name": m.group(2), "fields": parse_fields(m.group(3).split("\n"))}
    for m in re.finditer(r"^service\s+(\w+)(?:\s+extends\s+([\w.]+))?\s*\{(.*?)^\}", text, re.M | re.S):
        methods = []
        for mm in re.finditer(r"^\s*(oneway\s+)?([\w<>, .]+?)\s+(\w+)\s*\(([^)]*)\)(?:\s*throws\s*\(([^)]*)\))?", m.group(3), re.M):
            ret = mm.group(2).strip()
            methods.append({"oneway": bool(mm.group(1)), "ret": None if ret == "void" else parse_type(ret), "name": mm.group(3),
                            "args": parse_fields(split_args(mm.group(4))), "throws": parse_fields(split_args(mm.group(5) or ""))})
        model["services"][m.group(1)] = {"name": m.group(1), "extends": m.group(2), "methods": methods}
    return model


def resolve(model, t, others=None):
    """Follows typedefs; returns a type dict whose named leaves are structs or enums."""
    if t["k"] in ("list", "set"):
        return {"k": t["k"], "elem": resolve(model, t["elem"], others)}
    if t["k"] == "map":
        return {"k": "map", "key": resolve(model, t["key"], others), "elem": resolve(model, t["elem"], others)}
    if t["k"] != "named":
        return t
    name, m = t["name"], model
    if "." in name and others:
        inc, name = name.split(".", 1)
        m = others[inc]
    if name in m["typedefs"]:
        return resolve(m, m["typedefs"][name], others)
    if name in m["enums"]:
        return {"k": "enum", "name": name}
    if name in m["structs"]:
        return {"k": "struct", "name": name, "pkg": m["namespace"].get("go")}
    raise ValueError("unknown type " + t["name"])
