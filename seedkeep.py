#!/usr/bin/env python3
"""seedkeep.py <ID> <N> [tier]   - evaluates the delivery /tmp/seed_out/<ID>/{patchN.diff,demoN*,metaN.json}
(or the kept copy /verif/seeded/<ID>/<N>/) with seedeval.py and, when the change is valid (applies, existing
tests pass, demonstration fails with it and passes without it), stores it AT ONCE as
/verif/seeded/<ID>/<N>/{patch.diff, demoN*, meta.json} - /tmp does not survive a restore of the sandbox.
The first evaluation ever recorded for a change is kept as `first_evaluation`; every later one overwrites
`current_evaluation`.
seedkeep.py --summary            - rewrites seeded/SUMMARY.md from the meta.json files."""
import json, os, sys, subprocess, shutil, glob, re

V = os.path.dirname(os.path.abspath(__file__))
VERDICT = {0: "missed", 1: "caught", 2: "inconclusive"}


def first_what(out):
    m = re.search(r"what: (.*)", out or "")
    return (m.group(1) if m else "")[:300]


def summary():
    rows = []
    for f in sorted(glob.glob(V + "/seeded/C*/*/meta.json"), key=lambda p: (p.split("/")[-3], int(p.split("/")[-2]))):
        m = json.load(open(f))
        pid, n = f.split("/")[-3], f.split("/")[-2]
        fe = m.get("first_evaluation") or {}
        ce = m.get("current_evaluation") or m.get("check_result") or {}
        fv = fe.get("verdict") or (m.get("check_result") or {}).get("before_strengthening") or "?"
        cv = (ce.get("verdict") or "?").split(" ")[0]
        rows.append((pid, n, m.get("round", 1), (m.get("summary") or "")[:170].replace("|", "/").replace("\n", " "),
                     fv, cv, (ce.get("first_violation") or "")[:120].replace("|", "/")))
    table = "| change | round | what it does | first evaluation | now | assertion that fires |\n|---|---|---|---|---|---|\n"
    for r in rows:
        table += "| %s/%s | %s | %s | %s | %s | %s |\n" % r
    stats = {}
    for r in rows:
        s = stats.setdefault(r[2], {"n": 0, "first": 0, "now": 0})
        s["n"] += 1
        s["first"] += r[4] == "caught"
        s["now"] += r[5] == "caught"
    head = "# Independently produced breaking changes\n\n" + "\n".join(
        "round %s: %d changes, %d caught at first evaluation, %d caught now" % (k, v["n"], v["first"], v["now"])
        for k, v in sorted(stats.items(), key=lambda kv: str(kv[0]))) + "\n\n"
    open(V + "/seeded/SUMMARY.md", "w").write(head + table)
    print(head)


def main():
    if sys.argv[1] == "--summary":
        return summary()
    pid, n = sys.argv[1], sys.argv[2]
    tier = sys.argv[3] if len(sys.argv) > 3 else "quick"
    rnd = int(os.environ.get("SEED_ROUND", "4"))
    r = subprocess.run([sys.executable, V + "/seedeval.py", pid, n, tier], capture_output=True, text=True)
    try:
        rec = json.loads(r.stdout.strip().splitlines()[-1])
    except Exception:
        print("seedeval failed:", r.stdout[-500:], r.stderr[-500:])
        sys.exit(3)
    valid = bool(rec.get("applies") and rec.get("demo_passes_without") and rec.get("demo_fails_with_change") and rec.get("tests_pass"))
    short = {k: rec.get(k) for k in ("applies", "demo_passes_without", "demo_fails_with_change", "tests_pass", "check_exit", "check_wall_s")}
    print(pid, n, "valid" if valid else "INVALID", json.dumps(short))
    print(rec.get("check_output", "")[:1200])
    if not valid:
        print(json.dumps({k: rec.get(k) for k in ("error", "demo_output", "suite_output")})[:1500])
        sys.exit(4)
    dst = os.path.join(V, "seeded", pid, n)
    os.makedirs(dst, exist_ok=True)
    src = "/tmp/seed_out/%s" % pid
    if os.path.exists("%s/patch%s.diff" % (src, n)):
        shutil.copy("%s/patch%s.diff" % (src, n), dst + "/patch.diff")
        for f in glob.glob("%s/demo%s*" % (src, n)):
            if os.path.isdir(f):
                shutil.copytree(f, os.path.join(dst, os.path.basename(f)), dirs_exist_ok=True)
            else:
                shutil.copy(f, os.path.join(dst, os.path.basename(f)))
    agent_meta = {}
    if os.path.exists("%s/meta%s.json" % (src, n)):
        try:
            agent_meta = json.load(open("%s/meta%s.json" % (src, n)))
        except Exception:
            pass
    mp = dst + "/meta.json"
    meta = json.load(open(mp)) if os.path.exists(mp) else {}
    head = subprocess.run("git -C /repo rev-parse --short HEAD", shell=True, capture_output=True, text=True).stdout.strip()
    vhead = subprocess.run("git -C /verif rev-parse --short HEAD", shell=True, capture_output=True, text=True).stdout.strip()
    ev = {"command": "./vcheck %s %s (VERIF_REPO=<scratch worktree with the change>)" % (pid, tier), "exit": rec.get("check_exit"),
          "verdict": VERDICT.get(rec.get("check_exit"), "?"), "wall_s": rec.get("check_wall_s"),
          "first_violation": first_what(rec.get("check_output")), "verif_commit": vhead, "repo_commit": head}
    if not meta:
        meta = {"property": pid, "round": rnd,
                "summary": agent_meta.get("summary"), "needs_to_manifest": agent_meta.get("needs"), "files_changed": agent_meta.get("files"),
                "produced_by": "fresh sub-agent given only the property text and a scratch worktree of /repo",
                "base_commit": head,
                "first_evaluation": dict(ev, meaning="verdict of the check as it stood before the change had been seen")}
    meta["confirmed_by_me"] = {
        "patch_applies": rec.get("applies"), "existing_tests_pass_with_change": rec.get("tests_pass"),
        "demo_fails_with_change": rec.get("demo_fails_with_change"), "demo_passes_without": rec.get("demo_passes_without"),
        "how": "seedeval.py: scratch worktree of /repo HEAD, git apply, go test ./... in . and lib/go (up to 3 tries for the NATS port flake), demonstration with and without the change, then ./vcheck <id> <tier> with VERIF_REPO=<worktree>"}
    meta["current_evaluation"] = ev
    json.dump(meta, open(mp, "w"), indent=1)


if __name__ == "__main__":
    main()
