"""C03 (and other checks on generated service code): build the compiler from
/repo, generate Go for the catalogue programs and run hand-written harnesses
(kept in /verif/harness/gen_<pkg>/) inside the generated packages."""
import json, os, subprocess, time, hashlib, glob, concurrent.futures
import genpipe, idlmini

VERIF = os.path.dirname(os.path.abspath(__file__))
# evidence and replays of an evaluation run against a scratch tree (VERIF_REPO set) go to a scratch place
_ALT = os.environ.get("VERIF_REPO", "/repo") != "/repo"
EVIDENCE = os.path.join(os.environ.get("VERIF_ALT_OUT", "/tmp/verif_alt"), "evidence") if _ALT else os.path.join(VERIF, "evidence")
REPLAYS = os.path.join(os.environ.get("VERIF_ALT_OUT", "/tmp/verif_alt"), "replays") if _ALT else os.path.join(VERIF, "replays")


def typecheck(mod, pkg):
    """go build of one generated package; returns the compiler's complaint or ''."""
    r = subprocess.run(["go", "build", "./" + pkg + "/"], cwd=mod, env=genpipe.GOENV, capture_output=True, text=True)
    return "" if r.returncode == 0 else (r.stderr or r.stdout)[-800:]


def materialise(prop, spec, scratch):
    """Builds the compiler from /repo, generates Go for the catalogue programs of
    spec["gen_groups"] into a scratch module and prepares one harness overlay per
    generated package. Returns (groups, typecheck violations, inconclusive)."""
    inconclusive, tc_violations, groups = [], [], []
    exe = genpipe.build_compiler(scratch)
    mod = genpipe.go_module(scratch)
    cat = os.path.join(scratch, "catalogue")
    os.makedirs(cat)
    for f in glob.glob(os.path.join(VERIF, "catalogue", "c02_*.frugal")):
        open(os.path.join(cat, os.path.basename(f)), "w").write(open(f).read())
    for g in spec["gen_groups"]:
        rc, msg = genpipe.run_frugal(exe, os.path.join(cat, g["program"] + ".frugal"), "go:package_prefix=verifgen/", mod, recursive=bool(g.get("includes")))
        if rc != 0:
            inconclusive.append("compiler failed on %s: %s" % (g["program"], msg[-400:]))
        complaint = typecheck(mod, g["pkg"])
        if complaint:
            tc_violations.append({"property": prop, "harness": "go build", "kind": "typecheck", "label": "generated Go does not type-check", "site": g["program"],
                                  "fingerprint": "c03|%s|typecheck" % g["program"], "detail": complaint, "vector": [], "program": g["program"]})
            continue
        hdir = os.path.join(scratch, "harness_" + g["pkg"])
        os.makedirs(hdir, exist_ok=True)
        genpipe.sync_rt(VERIF, hdir, g["pkg"])
        for f in glob.glob(os.path.join(VERIF, "harness", "gen_" + g["pkg"], "*.go")):
            open(os.path.join(hdir, os.path.basename(f)), "w").write(open(f).read())
        groups.append({"dir": os.path.join(mod, g["pkg"]), "overlay": hdir, "entries": g["entries"], "program": g["program"]})
    return groups, tc_violations, inconclusive


def run(prop, spec, tier, scratch, known, vcheck):
    t0 = time.time()
    lines = []
    groups, tc_violations, inconclusive = materialise(prop, spec, scratch)
    jobs = []
    for group in groups:
        for e in group["entries"]:
            if tier not in e.get("tiers", ["quick", "thorough"]):
                continue
            jobs.append({"group": group, "entry": e, "params": e.get(tier, {}).get("params", [0]), "bound": e.get(tier, {}).get("bound", 0),
                         "flags": vcheck.entry_flags(e, tier), "prog": group["program"]})

    def run_job(job):
        g = job["group"]
        out = os.path.join(scratch, "res_%s_%s.json" % (os.path.basename(g["dir"]), job["entry"]["name"]))
        cmd = [vcheck.GOSE, "run", "-dir", g["dir"], "-overlay", g["overlay"], "-property", prop, "-out", out, "-entry", job["entry"]["name"],
               "-params", ",".join(str(p) for p in job["params"]), "-bound", str(job["bound"]), "-max-decisions", "3000"] + job["flags"]
        r = subprocess.run(cmd, env=genpipe.GOENV, capture_output=True, text=True)
        if not os.path.exists(out):
            return job, None, (r.stderr or r.stdout)[-1500:]
        return job, json.load(open(out)), ""

    paths = steps = queries = asserts = 0
    funcs, violations, samples, reach = {}, [], [], {}
    with concurrent.futures.ThreadPoolExecutor(max_workers=10) as ex:
        for job, res, err in ex.map(run_job, jobs):
            name = job["entry"]["name"]
            if res is None:
                inconclusive.append("gose failed on %s: %s" % (name, err))
                continue
            for er in res["entries"]:
                paths += er["paths"]
                steps += er["steps"]
                queries += er["sat"] + er["unsat"]
                asserts += er["asserts"]
                for f, n in er["funcs"].items():
                    funcs[f] = funcs.get(f, 0) + n
                for ev in er.get("events") or []:
                    inconclusive.append("%s: %s" % (name, ev))
                reach.setdefault(name, set()).update(er.get("reach") or [])
                for s in (er.get("samples") or [])[:2]:
                    if len(samples) < 8:
                        samples.append({"entry": name, "param": er["param"], "bound": job["bound"], "vector": s["vector"][:24], "decisions": s["decisions"][:160], "reach": s.get("reach")})
                for v in er.get("violations") or []:
                    v["param"], v["bound"] = er["param"], job["bound"]
                    violations.append((v, job))
    for job in jobs:
        name = job["entry"]["name"]
        missing = [l for l in job["entry"].get("expect_reach", ["end"]) if l not in reach.get(name, set())]
        if missing and not any(v["harness"] == name for v, _ in violations):
            inconclusive.append("%s: reach labels not covered: %s" % (name, ",".join(missing)))
    # native differential validation of sampled path witnesses
    validated = 0
    for job in jobs:
        ss = [s for s in samples if s["entry"] == job["entry"]["name"]][:2]
        if not ss or not job["entry"].get("native", True):
            continue
        outs, err = vcheck.native_batch(job["group"], [{"entry": s["entry"], "vector": s["vector"], "param": s["param"], "bound": s["bound"]} for s in ss], scratch)
        if outs is None:
            inconclusive.append("native differential run failed: " + err[-400:])
            continue
        for s, o in zip(ss, outs):
            if o["result"] != "ok" or sorted(o.get("reach") or []) != sorted(s["reach"] or []):
                inconclusive.append("ENGINE-MISMATCH: native run of a path witness differs: %s vs %s" % (json.dumps(s)[:300], json.dumps(o)[:200]))
            else:
                validated += 1
    exit_code, new = 0, 0
    os.makedirs(REPLAYS, exist_ok=True)
    seen = set()
    for v in tc_violations:
        k = vcheck.match_known(known, prop, v["fingerprint"])
        if k:
            lines.append("KNOWN-FINDING: property=%s %s" % (prop, k["what"]))
            continue
        path = os.path.join(REPLAYS, "%s-%s.json" % (prop, hashlib.sha1(v["fingerprint"].encode()).hexdigest()[:10]))
        v["confirmed_by"] = "go build of the generated package fails"
        json.dump(v, open(path, "w"), indent=1)
        lines.append("VIOLATION property=%s replay=%s" % (prop, path))
        lines.append("  what: program %s: the generated Go package does not type-check: %s" % (v["program"], v["detail"][:300].replace("\n", " | ")))
        new += 1
        exit_code = 1
    for v, job in violations:
        fp = v["fingerprint"]
        if fp in seen:
            continue
        seen.add(fp)
        k = vcheck.match_known(known, prop, fp)
        if k:
            lines.append("KNOWN-FINDING: property=%s %s" % (prop, k["what"]))
            continue
        ok, how = vcheck.confirm(prop, job["group"], dict(job["entry"], flags=job["flags"]), v, scratch)
        if not ok:
            inconclusive.append("ENGINE-MISMATCH: counterexample %s did not reproduce: %s" % (fp, how))
            continue
        path = os.path.join(REPLAYS, "%s-%s.json" % (prop, hashlib.sha1(fp.encode()).hexdigest()[:10]))
        v["confirmed_by"] = how
        v["program"] = job["prog"]
        json.dump(v, open(path, "w"), indent=1)
        lines.append("VIOLATION property=%s replay=%s" % (prop, path))
        lines.append("  what: program %s, %s: %s (%s)" % (job["prog"], v["harness"], v["label"], v["detail"][:200]))
        lines.append("  confirmed: %s" % how[:200])
        new += 1
        exit_code = 1
    if exit_code == 0 and inconclusive:
        exit_code = 2
    gen_funcs = sorted(f for f in funcs if "verifgen/" in f and "erif" not in f.split(".")[-1])
    ev = {
        "property_id": prop, "tier": tier, "seed": int(os.environ.get("VERIF_SEED", "0") or 0), "level": "model_checking",
        "coverage": {
            "states": max(paths, 1), "transitions": max(steps, 1), "traces_validated_against_impl": validated,
            "samples": samples or [{"note": "none"}],
            "programs": len(set(j["prog"] for j in jobs)), "programs_checked": sorted(set(j["prog"] for j in jobs)),
            "generated_functions_encoded": len(gen_funcs), "generated_functions_sample": gen_funcs[:60],
            "runtime_functions_encoded": sorted(f for f in funcs if "Workiva/frugal/lib/go" in f)[:60],
            "queries": queries, "assertions_checked": asserts, "exhaustive": not inconclusive, "inconclusive": inconclusive[:20],
            "bounds": spec["bounds"][tier],
        },
        "assumptions": spec.get("assumptions", []), "wall_s": round(time.time() - t0, 2), "violations": new,
    }
    return lines, exit_code, ev, inconclusive, "entries=%d paths=%d queries=%d validated_natively=%d" % (len(jobs), paths, queries, validated)
