package c02nested

// C03: inherited methods (service Child extends c02_base.Parent, from an include) behave identically.

import (
	"bytes"
	"errors"

	frugal "github.com/Workiva/frugal/lib/go"
	"github.com/apache/thrift/lib/go/thrift"

	"verifgen/c02base"
)

func init() {
	verifHarnesses["VerifC03_Inherited"] = VerifC03_Inherited
}

type verifLoop struct {
	proc     frugal.FProcessor
	pf       *frugal.FProtocolFactory
	requests int
}

func (l *verifLoop) Request(ctx frugal.FContext, payload []byte) (thrift.TTransport, error) {
	l.requests++
	out := frugal.NewTMemoryOutputBuffer(0)
	in := &thrift.TMemoryBuffer{Buffer: bytes.NewBuffer(payload[4:])}
	if err := l.proc.Process(l.pf.GetProtocol(in), l.pf.GetProtocol(out)); err != nil {
		return nil, err
	}
	if !out.HasWriteData() {
		return nil, errors.New("verif: the server wrote no reply")
	}
	return &thrift.TMemoryBuffer{Buffer: bytes.NewBuffer(out.Bytes()[4:])}, nil
}
func (l *verifLoop) Oneway(ctx frugal.FContext, payload []byte) error { return errors.New("unused") }
func (l *verifLoop) Open() error                                      { return nil }
func (l *verifLoop) Close() error                                     { return nil }
func (l *verifLoop) IsOpen() bool                                     { return true }
func (l *verifLoop) Closed() <-chan error                             { return nil }
func (l *verifLoop) SetMonitor(frugal.FTransportMonitor)              {}
func (l *verifLoop) GetRequestSizeLimit() uint                        { return 0 }

type verifHandler struct {
	origins, builds int
	level           c02base.Level
	pathLen         int
	pt              *c02base.Point
	deny            bool
}

func (h *verifHandler) Origin(fctx frugal.FContext) (*c02base.Point, error) {
	h.origins++
	return h.pt, nil
}

func (h *verifHandler) Build(fctx frugal.FContext, path Path, level c02base.Level) (*Shape, error) {
	h.builds++
	h.level, h.pathLen = level, len(path)
	if h.deny {
		d := c02base.NewDenied()
		d.Level = level
		return nil, d
	}
	s := NewShape()
	s.Outline = path
	return s, nil
}

func (h *verifHandler) Points(fctx frugal.FContext, deep *Deep) ([]*c02base.Point, error) {
	return []*c02base.Point{h.pt}, nil
}

func VerifC03_Inherited() {
	pt := c02base.NewPoint()
	pt.X, pt.Y = verifNondetI32(), verifNondetI32()
	if verifNondetBool() {
		l := c02base.Label(verifStr(verifChoice(2)))
		pt.Label = &l
	}
	h := &verifHandler{pt: pt, deny: verifNondetBool()}
	pf := frugal.NewFProtocolFactory(thrift.NewTBinaryProtocolFactoryDefault())
	loop := &verifLoop{proc: NewFChildProcessor(h), pf: pf}
	client := NewFChildClient(frugal.NewFServiceProvider(loop, pf))

	// the inherited method, through the child's client and processor
	got, err := client.Origin(frugal.NewFContext("c"))
	verifAssert(err == nil && h.origins == 1 && loop.requests == 1, "the inherited method reaches the handler exactly once")
	verifAssert(got != nil && got.X == pt.X && got.Y == pt.Y && (got.Label == nil) == (pt.Label == nil) && (pt.Label == nil || *got.Label == *pt.Label), "and returns its value")

	// the child's own method with a typedef'd list of an included struct and an included enum / exception
	level := c02base.Level(verifNondetI32())
	var path Path
	if verifNondetBool() {
		path = Path{pt}
	}
	shape, err := client.Build(frugal.NewFContext("c"), path, level)
	verifAssert(h.builds == 1 && h.level == level && h.pathLen == len(path), "own method: handler invoked once with equal arguments")
	if h.deny {
		d, ok := err.(*c02base.Denied)
		verifAssert(ok && d.Level == level && shape == nil, "the declared exception of an included type arrives with its field")
		verifReach("denied")
	} else {
		verifAssert(err == nil && shape != nil && len(shape.Outline) == len(path), "the returned struct arrives")
		if len(path) == 1 {
			verifAssert(shape.Outline[0].X == pt.X && shape.Outline[0].Y == pt.Y, "with its nested content")
		}
		verifReach("built")
	}
	verifReach("end")
}
