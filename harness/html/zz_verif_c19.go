package html

import "github.com/Workiva/frugal/compiler/parser"

// C19 (kernel scope): the one place of the generators where the ORDER OF A GO MAP
// reaches the emitted text: the module list of the HTML index (transitiveIncludes:
// collect the transitive includes in a map, append them in map order, sort.Sort by
// module name). Two runs over the same program may iterate every map in a different
// order; the emitted order must be the same. 2-safety by self-composition: the function
// is executed twice, every `range` over a map explores all its orders independently.

func init() {
	verifHarnesses["VerifC19_HTMLIndexOrder"] = VerifC19_HTMLIndexOrder
}

func VerifC19_HTMLIndexOrder() {
	// a program with 2..3 (transitive) includes; module names are the base names of the
	// files, so files in different directories may share a name
	names := []string{"common", "base", "util"}
	mk := func(file string) *parser.Frugal {
		return &parser.Frugal{Name: names[verifChoice(len(names))], File: file, ParsedIncludes: map[string]*parser.Frugal{}}
	}
	main := &parser.Frugal{Name: "main", File: "main.frugal", ParsedIncludes: map[string]*parser.Frugal{}}
	a, b := mk("a/x.frugal"), mk("b/y.frugal")
	main.ParsedIncludes["x"] = a
	main.ParsedIncludes["y"] = b
	if verifParam() > 0 {
		c := mk("b/z.frugal")
		b.ParsedIncludes["z"] = c
		if verifParam() > 1 {
			d := mk("c/w.frugal")
			if verifNondetBool() {
				a.ParsedIncludes["w"] = d
			} else {
				c.ParsedIncludes["w"] = d
			}
			verifMapOrder(c.ParsedIncludes)
		}
		verifMapOrder(b.ParsedIncludes)
	}
	verifMapOrder(main.ParsedIncludes)
	verifMapOrder(a.ParsedIncludes)
	first := transitiveIncludes(main)
	second := transitiveIncludes(main)
	verifAssert(len(first) == len(second), "same number of modules")
	distinct := true
	for i := range first {
		for j := 0; j < i; j++ {
			if first[i].Name == first[j].Name {
				distinct = false
			}
		}
	}
	if !distinct {
		verifReach("same-module-name-twice")
	}
	for i := range first {
		verifAssert(first[i].File == second[i].File, "two runs list the modules of the HTML index in the same order")
	}
	verifReach("end")
}
