package parser

// C11 (kernel scope): the compiler terminates with a diagnostic instead of
// crashing. Here: typedef resolution on arbitrary typedef graphs.

func init() {
	verifHarnesses["VerifC11_TypedefResolution"] = VerifC11_TypedefResolution
}

// A program with k typedefs T_0..T_{k-1} whose targets are arbitrary (a base
// type, a struct, any typedef including itself, a container of any of those,
// or an unknown name), and a struct with a field of every typedef. If the real
// validate() accepts the program, resolving any type must terminate with a
// type that is not a typedef name.
func VerifC11_TypedefResolution() {
	k := 1 + verifParam()
	names := []string{"T_0", "T_1", "T_2", "T_3"}[:k]
	f := &Frugal{Name: "p", ParsedIncludes: map[string]*Frugal{}, typedefIndex: map[string]*TypeDef{}, namespaceIndex: map[string]*Namespace{}}
	f.Structs = []*Struct{{Name: "S_1"}}
	target := func() *Type {
		n := verifStr(3)
		verifAssume(n == "i32" || n == "S_1" || n == "T_0" || n == "T_1" || n == "T_2" || n == "T_3" || n == "XXX")
		t := &Type{Name: n}
		switch verifChoice(3) {
		case 1:
			return &Type{Name: "list", ValueType: t}
		case 2:
			return &Type{Name: "map", KeyType: &Type{Name: "i32"}, ValueType: t}
		}
		return t
	}
	for i := 0; i < k; i++ {
		td := &TypeDef{Name: names[i], Type: target()}
		f.Typedefs = append(f.Typedefs, td)
		f.typedefIndex[td.Name] = td
	}
	var fields []*Field
	for i := 0; i < k; i++ {
		fields = append(fields, &Field{ID: i + 1, Name: "f", Modifier: Default, Type: &Type{Name: names[i]}})
	}
	f.Structs = append(f.Structs, &Struct{Name: "Use", Fields: fields})
	if err := f.validate(); err != nil {
		verifReach("rejected")
		return
	}
	verifReach("accepted")
	verifNoPanic("type resolution panics on a program that validate() accepted", func() {
		for _, fld := range fields {
			u := f.UnderlyingType(fld.Type)
			_, isTypedef := f.typedefIndex[u.Name]
			verifAssert(!isTypedef, "the underlying type of a valid type is not a typedef")
			_ = f.IsStruct(fld.Type)
			_ = f.IsUnion(fld.Type)
			_ = f.IsEnum(fld.Type)
		}
	})
	verifReach("end")
}

func init() {
	verifHarnesses["VerifC11_TypeValidation"] = VerifC11_TypeValidation
}

// verifAnyType builds a type from {i32, a struct, a typedef, an UNDEFINED name}, bare
// or as list / set / map element (one level); the second result says whether the
// undefined name occurs in it.
func verifAnyType() (*Type, bool) {
	leaf := func() (*Type, bool) {
		switch verifChoice(4) {
		case 1:
			return &Type{Name: "S_1"}, false
		case 2:
			return &Type{Name: "T_0"}, false
		case 3:
			return &Type{Name: "Nope"}, true
		}
		return &Type{Name: "i32"}, false
	}
	switch verifChoice(4) {
	case 1:
		e, bad := leaf()
		return &Type{Name: "list", ValueType: e}, bad
	case 2:
		e, bad := leaf()
		return &Type{Name: "set", ValueType: e}, bad
	case 3:
		k, bk := leaf()
		e, be := leaf()
		return &Type{Name: "map", KeyType: k, ValueType: e}, bk || be
	}
	return leaf()
}

// A program in which an undefined type name may occur at any of three sites (struct
// fields in declaration order, a method argument / return type, a scope operation):
// validate() reports an error iff it occurs somewhere; earlier valid uses of the same
// container kind must not mask a later invalid one.
func VerifC11_TypeValidation() {
	f := &Frugal{Name: "p", ParsedIncludes: map[string]*Frugal{}, typedefIndex: map[string]*TypeDef{}, namespaceIndex: map[string]*Namespace{}}
	td := &TypeDef{Name: "T_0", Type: &Type{Name: "i32"}}
	f.Typedefs = []*TypeDef{td}
	f.typedefIndex["T_0"] = td
	f.Structs = []*Struct{{Name: "S_1"}}
	bad := false
	switch verifParam() {
	case 0:
		// a valid container first, then two arbitrary types
		fields := []*Field{{ID: 1, Name: "seed", Modifier: Default, Type: &Type{Name: []string{"list", "set"}[verifChoice(2)], ValueType: &Type{Name: "S_1"}}}}
		for i := 0; i < 2; i++ {
			t, b := verifAnyType()
			bad = bad || b
			fields = append(fields, &Field{ID: i + 2, Name: []string{"a", "b"}[i], Modifier: Default, Type: t})
		}
		f.Structs = append(f.Structs, &Struct{Name: "Use", Fields: fields})
	case 1:
		a, b1 := &Type{Name: "set", ValueType: &Type{Name: "T_0"}}, false
		r, b2 := verifAnyType()
		x, b3 := verifAnyType()
		bad = b1 || b2 || b3
		f.Services = []*Service{{Name: "Svc", Methods: []*Method{
			{Name: "first", ReturnType: &Type{Name: "list", ValueType: &Type{Name: "i32"}}, Arguments: []*Field{{ID: 1, Name: "a", Type: a}}},
			{Name: "second", ReturnType: r, Arguments: []*Field{{ID: 1, Name: "a", Type: &Type{Name: "i32"}}}, Exceptions: nil},
			{Name: "third", ReturnType: nil, Arguments: []*Field{{ID: 1, Name: "a", Type: &Type{Name: "map", KeyType: &Type{Name: "i32"}, ValueType: &Type{Name: "i32"}}}, {ID: 2, Name: "b", Type: x}}},
		}}}
	case 2:
		o1, b1 := verifAnyType()
		o2, b2 := verifAnyType()
		bad = b1 || b2
		f.Scopes = []*Scope{{Name: "Ev", Prefix: &ScopePrefix{String: ""}, Operations: []*Operation{{Name: "A", Type: o1}, {Name: "B", Type: o2}}}}
	}
	f.assignFrugal()
	err := f.validate()
	if bad {
		verifReach("undefined-type")
		verifAssert(err != nil, "a program that uses an undefined type is rejected")
	} else {
		verifReach("all-defined")
		if verifParam() != 2 {
			verifAssert(err == nil, "a program whose types are all defined is accepted")
		}
	}
	verifReach("end")
}

func init() {
	verifHarnesses["VerifC11_EnumNumbering"] = VerifC11_EnumNumbering
}

// The semantic action that numbers enum values (the Go code the grammar runs for an
// `enum` declaration; the PEG matcher itself is outside): for any mix of explicit
// (arbitrary non-negative) and implicit values in which the explicit numbers are
// pairwise different, every value ends up with its own number - a duplicate makes the
// generated Go a duplicate switch case, i.e. a valid program whose output does not compile.
func VerifC11_EnumNumbering() {
	k := 2 + verifParam()
	var vals []interface{}
	var evs []*EnumValue
	explicit := make([]bool, k)
	for i := 0; i < k; i++ {
		var value interface{}
		if verifNondetBool() {
			n := int64(verifRange(0, 1<<40)) // any explicit number
			value = []interface{}{nil, nil, n}
			explicit[i] = true
		}
		ev, err := (&current{}).onEnumValue1(nil, Identifier([]string{"A", "B", "C", "D", "E"}[i]), value, nil)
		verifAssert(err == nil, "enum value action")
		evs = append(evs, ev.(*EnumValue))
		vals = append(vals, []interface{}{ev})
	}
	for i := 0; i < k; i++ {
		for j := 0; j < i; j++ {
			if explicit[i] && explicit[j] {
				verifAssume(evs[i].Value != evs[j].Value) // the program does not itself declare a number twice
			}
		}
	}
	res, err := (&current{}).onEnum1(Identifier("E"), vals, nil)
	verifAssert(err == nil, "enum action")
	en := res.(*Enum)
	verifAssert(len(en.Values) == k, "every declared value is kept")
	clash := false
	for i := 0; i < k; i++ {
		verifAssert(en.Values[i].Value >= 0, "every value has a number")
		for j := 0; j < i; j++ {
			if en.Values[i].Value == en.Values[j].Value {
				// an explicit number may repeat an implicit one assigned before it only if the
				// program asked for exactly that number; numbering must never CREATE a clash
				if !explicit[i] {
					clash = true
				}
			}
		}
	}
	verifAssert(!clash, "an implicitly numbered value never collides with an earlier value")
	verifReach("end")
}

func init() {
	verifHarnesses["VerifC19_ReferencedIncludes"] = VerifC19_ReferencedIncludes
}

// C19 (kernel): the functions that compute which includes a generated file imports
// (Scope / Service / Frugal .ReferencedIncludes, ReferencedScopeIncludes,
// ReferencedServiceIncludes, OrderedIncludes, ReferencedInternals) are executed
// twice on one model with EVERY range over EVERY map exploring all iteration orders
// (-all-map-orders): both executions must return the same sequence. Today none of them
// ranges over a map; a change that makes one of them do so is decided here.
// verifIncludeModel builds a program with three includes whose types are referenced
// from scope operations and service methods, plain or as map key / list element; it
// also returns which includes the scope and the service reference.
func verifIncludeModel() (*Frugal, map[string]bool, map[string]bool) {
	names := []string{"alpha", "beta", "gamma"}
	f := &Frugal{Name: "p", ParsedIncludes: map[string]*Frugal{}, typedefIndex: map[string]*TypeDef{}, namespaceIndex: map[string]*Namespace{}}
	for _, n := range names {
		inc := &Frugal{Name: n, ParsedIncludes: map[string]*Frugal{}, typedefIndex: map[string]*TypeDef{}, namespaceIndex: map[string]*Namespace{}}
		inc.Structs = []*Struct{{Name: "T"}}
		f.ParsedIncludes[n] = inc
		f.Includes = append(f.Includes, &Include{Name: n, Value: n + ".frugal"})
	}
	istart, sstart, k := verifChoice(3), verifChoice(4), 0
	ty := func(used map[string]bool) *Type {
		// successive uses cycle through the includes and the four shapes from a chosen start
		k++
		inc := names[(istart+k)%3]
		used[inc] = true
		n := inc + ".T"
		switch (sstart + k) % 4 {
		case 1:
			return &Type{Name: "map", KeyType: &Type{Name: n}, ValueType: &Type{Name: "string"}}
		case 2:
			return &Type{Name: "list", ValueType: &Type{Name: n}}
		case 3:
			return &Type{Name: "map", KeyType: &Type{Name: "i32"}, ValueType: &Type{Name: "set", ValueType: &Type{Name: n}}}
		}
		return &Type{Name: n}
	}
	scopeUses, svcUses := map[string]bool{"gamma": true}, map[string]bool{"alpha": true}
	f.Scopes = []*Scope{{Name: "Ev", Prefix: &ScopePrefix{String: ""}, Operations: []*Operation{{Name: "A", Type: ty(scopeUses)}, {Name: "B", Type: ty(scopeUses)}, {Name: "C", Type: &Type{Name: "gamma.T"}}}}}
	f.Services = []*Service{{Name: "Svc", Methods: []*Method{
		{Name: "m", ReturnType: ty(svcUses), Arguments: []*Field{{ID: 1, Name: "a", Type: ty(svcUses)}}},
		{Name: "n", ReturnType: &Type{Name: "alpha.T"}},
	}}}
	f.Scopes[0].Frugal = f
	f.Services[0].Frugal = f
	f.assignFrugal()
	return f, scopeUses, svcUses
}

func init() {
	verifHarnesses["VerifC11_ReferencedIncludes"] = VerifC11_ReferencedIncludes
}

// C11: generated files import exactly the includes they use. The import lists of every
// target come from Scope / Service .ReferencedIncludes: each must name exactly the
// includes whose types occur in the scope's operations / the service's signatures -
// also when a type occurs only as a map key or inside a nested container (a missing
// import makes the generated Go fail to compile).
func VerifC11_ReferencedIncludes() {
	f, scopeUses, svcUses := verifIncludeModel()
	check := func(got []*Include, err error, want map[string]bool, what string) {
		verifAssert(err == nil, what+": no error")
		seen := map[string]bool{}
		for _, i := range got {
			verifAssert(want[i.Name], what+": only referenced includes are listed")
			verifAssert(!seen[i.Name], what+": no include is listed twice")
			seen[i.Name] = true
		}
		verifAssert(len(seen) == len(want), what+": every referenced include is listed")
	}
	a, e1 := f.Scopes[0].ReferencedIncludes()
	check(a, e1, scopeUses, "scope imports")
	b, e2 := f.Services[0].ReferencedIncludes()
	check(b, e2, svcUses, "service imports")
	c, e3 := f.ReferencedScopeIncludes()
	check(c, e3, scopeUses, "scope file imports")
	d, e4 := f.ReferencedServiceIncludes()
	check(d, e4, svcUses, "service file imports")
	verifReach("end")
}

func VerifC19_ReferencedIncludes() {
	f, _, _ := verifIncludeModel()
	same := func(a, b []*Include) bool {
		if len(a) != len(b) {
			return false
		}
		for i := range a {
			if a[i].Name != b[i].Name {
				return false
			}
		}
		return true
	}
	switch verifParam() {
	case 0:
		a, e1 := f.Scopes[0].ReferencedIncludes()
		b, e2 := f.Scopes[0].ReferencedIncludes()
		verifAssert(e1 == nil && e2 == nil && same(a, b), "Scope.ReferencedIncludes: two runs, same sequence")
	case 1:
		a, e1 := f.Services[0].ReferencedIncludes()
		b, e2 := f.Services[0].ReferencedIncludes()
		verifAssert(e1 == nil && e2 == nil && same(a, b), "Service.ReferencedIncludes: two runs, same sequence")
	case 2:
		a, e1 := f.ReferencedScopeIncludes()
		b, e2 := f.ReferencedScopeIncludes()
		verifAssert(e1 == nil && e2 == nil && same(a, b), "Frugal.ReferencedScopeIncludes: two runs, same sequence")
		c, e3 := f.ReferencedServiceIncludes()
		d, e4 := f.ReferencedServiceIncludes()
		verifAssert(e3 == nil && e4 == nil && same(c, d), "Frugal.ReferencedServiceIncludes: two runs, same sequence")
	case 3:
		a, e1 := f.ReferencedIncludes()
		b, e2 := f.ReferencedIncludes()
		verifAssert(e1 == nil && e2 == nil && same(a, b), "Frugal.ReferencedIncludes: two runs, same sequence")
		x, y := f.OrderedIncludes(), f.OrderedIncludes()
		verifAssert(len(x) == len(y), "OrderedIncludes: same length")
		for i := range x {
			verifAssert(x[i].Name == y[i].Name, "OrderedIncludes: two runs, same sequence")
		}
	}
	verifReach("end")
}

func init() {
	verifHarnesses["VerifC11_IncludedTypedefs"] = VerifC11_IncludedTypedefs
}

// Typedefs across an include. The included file `inc` declares `typedef i32 A`, `typedef A B` (a chain
// INSIDE the include) and a struct S with `typedef S PS`; the program declares `typedef inc.A C`,
// `typedef C D` (a local chain that ends in the include) and - parameter 1 - the same-name re-export
// `typedef inc.A A`. Every use must be accepted by validate() and resolve, in a bounded number of
// steps, to the base type (i32) or to the included struct - never to a typedef name.
func VerifC11_IncludedTypedefs() {
	mk := func(name string) *Frugal {
		return &Frugal{Name: name, ParsedIncludes: map[string]*Frugal{}, typedefIndex: map[string]*TypeDef{}, namespaceIndex: map[string]*Namespace{}}
	}
	addTd := func(f *Frugal, name string, t *Type) {
		td := &TypeDef{Name: name, Type: t}
		f.Typedefs = append(f.Typedefs, td)
		f.typedefIndex[name] = td
	}
	inc := mk("inc")
	inc.Structs = []*Struct{{Name: "S"}}
	addTd(inc, "A", &Type{Name: "i32"})
	addTd(inc, "B", &Type{Name: "A"})
	addTd(inc, "PS", &Type{Name: "S"})
	f := mk("p")
	f.ParsedIncludes["inc"] = inc
	f.Includes = []*Include{{Name: "inc", Value: "inc.frugal"}}
	addTd(f, "C", &Type{Name: "inc.A"})
	addTd(f, "D", &Type{Name: "C"})
	reexport := verifParam() == 1
	if reexport {
		addTd(f, "A", &Type{Name: "inc.A"})
		verifReach("same-name-re-export")
	}
	uses := []string{"inc.A", "C", "D", "inc.B", "inc.S", "inc.PS"}
	if reexport {
		uses = append(uses, "A")
	}
	use := uses[verifChoice(len(uses))]
	t := &Type{Name: use}
	switch verifChoice(3) {
	case 1:
		t = &Type{Name: "list", ValueType: t}
	case 2:
		t = &Type{Name: "map", KeyType: &Type{Name: "string"}, ValueType: t}
	}
	f.Structs = []*Struct{{Name: "Use", Fields: []*Field{{ID: 1, Name: "f", Modifier: Default, Type: t}}}}
	verifAssert(f.validate() == nil, "a program that uses typedefs of an included file is accepted")
	leaf := &Type{Name: use}
	verifNoPanic("type resolution panics on a valid program with an include", func() {
		u := f.UnderlyingType(leaf)
		switch use {
		case "inc.S", "inc.PS":
			if use == "inc.PS" {
				// (known finding F26, second site: the target `S` is returned unqualified, i.e. as a name of the INCLUDING file)
				verifAssert(u.Name == "inc.S", "a typedef of a struct declared in the included file resolves to that struct")
			} else {
				verifAssert(u.Name == "inc.S", "an included struct is its own underlying type")
			}
		case "inc.B":
			verifAssert(u.Name == "i32", "a typedef chain INSIDE an included file resolves to its base type from the including file")
		default:
			verifAssert(u.Name == "i32", "a typedef that leads into an included file resolves to the base type")
		}
		verifAssert(!f.IsStruct(&Type{Name: "C"}) && !f.IsStruct(&Type{Name: "D"}) && !f.IsStruct(&Type{Name: "inc.A"}), "an alias of i32 is not a struct")
		verifAssert(f.IsStruct(&Type{Name: "inc.S"}), "the included struct is a struct")
	})
	verifReach("end")
}
