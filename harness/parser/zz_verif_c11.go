package parser

// C11 (kernel scope): the compiler terminates with a diagnostic instead of
// crashing. Here: typedef resolution on arbitrary typedef graphs.

func init() {
	verifHarnesses["VerifC11_TypedefResolution"] = VerifC11_TypedefResolution
}

// A program with k typedefs T_0..T_{k-1} whose targets are arbitrary (a base
// type, a struct, any typedef including itself, a container of any of those,
// or an unknown name), and a struct with a field of every typedef. If the real
// validate() accepts the program, resolving any type must terminate with a
// type that is not a typedef name.
func VerifC11_TypedefResolution() {
	k := 1 + verifParam()
	names := []string{"T_0", "T_1", "T_2", "T_3"}[:k]
	f := &Frugal{Name: "p", ParsedIncludes: map[string]*Frugal{}, typedefIndex: map[string]*TypeDef{}, namespaceIndex: map[string]*Namespace{}}
	f.Structs = []*Struct{{Name: "S_1"}}
	target := func() *Type {
		n := verifStr(3)
		verifAssume(n == "i32" || n == "S_1" || n == "T_0" || n == "T_1" || n == "T_2" || n == "T_3" || n == "XXX")
		t := &Type{Name: n}
		switch verifChoice(3) {
		case 1:
			return &Type{Name: "list", ValueType: t}
		case 2:
			return &Type{Name: "map", KeyType: &Type{Name: "i32"}, ValueType: t}
		}
		return t
	}
	for i := 0; i < k; i++ {
		td := &TypeDef{Name: names[i], Type: target()}
		f.Typedefs = append(f.Typedefs, td)
		f.typedefIndex[td.Name] = td
	}
	var fields []*Field
	for i := 0; i < k; i++ {
		fields = append(fields, &Field{ID: i + 1, Name: "f", Modifier: Default, Type: &Type{Name: names[i]}})
	}
	f.Structs = append(f.Structs, &Struct{Name: "Use", Fields: fields})
	if err := f.validate(); err != nil {
		verifReach("rejected")
		return
	}
	verifReach("accepted")
	verifNoPanic("type resolution panics on a program that validate() accepted", func() {
		for _, fld := range fields {
			u := f.UnderlyingType(fld.Type)
			_, isTypedef := f.typedefIndex[u.Name]
			verifAssert(!isTypedef, "the underlying type of a valid type is not a typedef")
			_ = f.IsStruct(fld.Type)
			_ = f.IsUnion(fld.Type)
			_ = f.IsEnum(fld.Type)
		}
	})
	verifReach("end")
}
