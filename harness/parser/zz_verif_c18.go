package parser

// C18: the IDL audit flags every breaking change and nothing else.
//
// The real Auditor.Audit runs on pairs of models built by the harness
// (ParseFrugal is redirected to verifParseFrugal); attributes of the models
// are symbolic. The oracle is three-valued: mustFail (a documented breaking
// change is present), mustPass (only documented compatible edits), or
// unspecified (statement and code comments are silent or disagree).

func init() {
	verifHarnesses["VerifC18_Fields"] = VerifC18_Fields
	verifHarnesses["VerifC18_FieldsNested"] = VerifC18_FieldsNested
	verifHarnesses["VerifC18_FieldsWide"] = VerifC18_FieldsWide
	verifHarnesses["VerifC18_Services"] = VerifC18_Services
	verifHarnesses["VerifC18_TypedefShapes"] = VerifC18_TypedefShapes
	verifHarnesses["VerifC18_EnumsScopes"] = VerifC18_EnumsScopes
	verifHarnesses["VerifC18_AddedField"] = VerifC18_AddedField
}

// (1c) a field added to a list of two or three unchanged fields, at any id (before,
// between, after the existing ids) with any modifier, at every site: breaking iff
// the added field is required.
func VerifC18_AddedField() {
	to := verifTypedefTarget(false)
	oldF, newF := verifNewFrugal("p", to), verifNewFrugal("p", to)
	k := 2 + verifChoice(2)
	var oldFs, newFs []*Field
	names := []string{"a", "b", "c"}
	for i := 0; i < k; i++ {
		id := verifRange(1, 6)
		mod := FieldModifier(verifRange(0, 2))
		oldFs = append(oldFs, &Field{ID: id, Name: names[i], Modifier: mod, Type: &Type{Name: "i32"}})
		newFs = append(newFs, &Field{ID: id, Name: names[i], Modifier: mod, Type: &Type{Name: "i32"}})
	}
	added := &Field{ID: verifRange(1, 6), Name: "z", Modifier: FieldModifier(verifRange(0, 2)), Type: &Type{Name: verifScalarName()}}
	// the added field may be declared anywhere in the new list
	at := verifChoice(k + 1)
	newFs = append(newFs[:at], append([]*Field{added}, newFs[at:]...)...)
	verifAssume(verifDistinctIDs(newFs))
	switch verifParam() {
	case 0:
		oldF.Structs = []*Struct{{Name: "S_1", Fields: oldFs}}
		newF.Structs = []*Struct{{Name: "S_1", Fields: newFs}}
	case 1:
		oldF.Exceptions = []*Struct{{Name: "S_1", Fields: oldFs, Type: StructTypeException}}
		newF.Exceptions = []*Struct{{Name: "S_1", Fields: newFs, Type: StructTypeException}}
	case 2:
		ret := &Type{Name: "i32"}
		oldF.Services = []*Service{{Name: "Svc", Methods: []*Method{{Name: "m", ReturnType: ret, Arguments: oldFs}}}}
		newF.Services = []*Service{{Name: "Svc", Methods: []*Method{{Name: "m", ReturnType: ret, Arguments: newFs}}}}
	}
	var v verifVerdict
	v.mustFail = added.Modifier == Required
	if added.Modifier == Required {
		verifReach("added-required")
	}
	verifJudge(verifAudit(oldF, newF), v)
	verifReach("end")
}

type verifAuditLog struct{ errors, warnings int }

func (l *verifAuditLog) LogWarning(...string) { l.warnings++ }
func (l *verifAuditLog) LogError(...string)   { l.errors++ }
func (l *verifAuditLog) ErrorsLogged() bool   { return l.errors > 0 }

var verifModels = map[string]*Frugal{}

// redirect target for ParseFrugal
func verifParseFrugal(file string) (*Frugal, error) {
	return verifModels[file], nil
}

func verifNewFrugal(name string, typedefTarget *Type) *Frugal {
	f := &Frugal{Name: name, ParsedIncludes: map[string]*Frugal{}}
	td := &TypeDef{Name: "T32", Type: typedefTarget}
	f.Typedefs = []*TypeDef{td}
	f.typedefIndex = map[string]*TypeDef{"T32": td}
	f.namespaceIndex = map[string]*Namespace{}
	return f
}

func verifAudit(oldF, newF *Frugal) (failed bool) {
	verifModels = map[string]*Frugal{"old": oldF, "new": newF}
	log := &verifAuditLog{}
	err := NewAuditorWithLogger(log).Audit("old", "new")
	verifAssert((err != nil) == (log.errors > 0), "Audit fails iff an error was logged")
	return err != nil
}

// a base type name: one of two scalar names, the typedef T32, or a struct name
func verifTypeName() string {
	return []string{"i32", "i64", "T32", "S_1"}[verifChoice(4)]
}

func verifScalarName() string {
	return []string{"i32", "i64"}[verifChoice(2)]
}

// verifTypedefTarget is what the typedef T32 stands for: a scalar, or (wide) a
// container whose element type can differ between the old and the new program.
func verifTypedefTarget(wide bool) *Type {
	n := 2
	if wide {
		n = 5
	}
	switch verifChoice(n) {
	case 1:
		return &Type{Name: "i64"}
	case 2:
		return &Type{Name: "list", ValueType: &Type{Name: "i32"}}
	case 3:
		return &Type{Name: "list", ValueType: &Type{Name: "i64"}}
	case 4:
		return &Type{Name: "map", KeyType: &Type{Name: "i32"}, ValueType: &Type{Name: "i64"}}
	}
	return &Type{Name: "i32"}
}

// verifType builds a scalar, or (levels > 0) a list / map around a smaller type.
func verifType(levels int) *Type {
	if levels > 0 {
		switch verifChoice(3) {
		case 1:
			return &Type{Name: "list", ValueType: verifType(levels - 1)}
		case 2:
			return &Type{Name: "map", KeyType: &Type{Name: verifScalarName()}, ValueType: verifType(levels - 1)}
		}
	}
	return &Type{Name: verifTypeName()}
}

// verifResolve is the oracle's own typedef resolution.
func verifResolve(t, typedefTarget *Type) *Type {
	if t != nil && t.Name == "T32" {
		return typedefTarget
	}
	return t
}

func verifSameType(a, b *Type, ta, tb *Type) bool {
	a, b = verifResolve(a, ta), verifResolve(b, tb)
	if a == nil || b == nil {
		return a == nil && b == nil
	}
	if a.Name != b.Name {
		return false
	}
	return verifSameType(a.KeyType, b.KeyType, ta, tb) && verifSameType(a.ValueType, b.ValueType, ta, tb)
}

// verifPlainField is a field whose type is fixed (only id, modifier and presence vary).
func verifPlainField(present bool) *Field {
	if !present {
		return nil
	}
	return &Field{ID: verifRange(1, 3), Name: "c", Modifier: FieldModifier(verifRange(0, 2)), Type: &Type{Name: "i32"}}
}

func verifField(present bool) *Field {
	if !present {
		return nil
	}
	id := verifRange(1, 3)
	mod := FieldModifier(verifRange(0, 2))
	name := "a"
	if verifNondetBool() {
		name = "b"
	}
	return &Field{ID: id, Name: name, Modifier: mod, Type: verifType(verifBound())}
}

func verifFieldList(fs ...*Field) []*Field {
	var out []*Field
	for _, f := range fs {
		if f != nil {
			out = append(out, f)
		}
	}
	return out
}

type verifVerdict struct{ mustFail, unspecified bool }

// verifFieldsVerdict is the reference judgement for two field lists (ids unique within a list).
func verifFieldsVerdict(oldFs, newFs []*Field, to, tn *Type) verifVerdict {
	var v verifVerdict
	for _, o := range oldFs {
		var n *Field
		for _, c := range newFs {
			if c.ID == o.ID {
				n = c
			}
		}
		if n == nil {
			if o.Modifier == Optional {
				v.unspecified = true // removing an optional field: statement says breaking, code comments say allowed
			} else {
				v.mustFail = true // removed field
			}
			continue
		}
		if !verifSameType(o.Type, n.Type, to, tn) {
			v.mustFail = true // retyped field
		}
		if (o.Modifier == Required) != (n.Modifier == Required) {
			v.mustFail = true // requiredness change
		}
	}
	for _, n := range newFs {
		found := false
		for _, o := range oldFs {
			if o.ID == n.ID {
				found = true
			}
		}
		if !found && n.Modifier == Required {
			v.mustFail = true // added required field
		}
	}
	return v
}

func verifDistinctIDs(fs []*Field) bool {
	for i := range fs {
		for j := 0; j < i; j++ {
			if fs[i].ID == fs[j].ID {
				return false
			}
		}
	}
	return true
}

func verifJudge(failed bool, v verifVerdict) {
	if v.mustFail {
		verifReach("must-fail")
		verifAssert(failed, "a documented breaking change makes the audit fail")
	} else if !v.unspecified {
		verifReach("must-pass")
		verifAssert(!failed, "only compatible edits: the audit passes")
	} else {
		verifReach("unspecified")
	}
}

// (1) fields of a struct / exception / union / method arguments / throws clause.
var verifC18Wide bool

func VerifC18_Fields() {
	wide := verifC18Wide
	to, tn := verifTypedefTarget(wide), verifTypedefTarget(wide) // what typedef T32 means in the old and new program
	oldF, newF := verifNewFrugal("p", to), verifNewFrugal("p", tn)
	extra := verifParam() / 5 // 0: one field slot; 1/2/3: a second, plain field in old / new / both
	oldFs := verifFieldList(verifField(true), verifPlainField(extra == 1 || extra == 3))
	newFs := verifFieldList(verifField(verifNondetBool()), verifPlainField(extra == 2 || extra == 3))
	verifAssume(verifDistinctIDs(oldFs) && verifDistinctIDs(newFs))
	where := verifParam() % 5
	switch where {
	case 0:
		oldF.Structs = []*Struct{{Name: "S_1", Fields: oldFs}}
		newF.Structs = []*Struct{{Name: "S_1", Fields: newFs}}
	case 1:
		oldF.Exceptions = []*Struct{{Name: "S_1", Fields: oldFs, Type: StructTypeException}}
		newF.Exceptions = []*Struct{{Name: "S_1", Fields: newFs, Type: StructTypeException}}
	case 2:
		oldF.Unions = []*Struct{{Name: "S_1", Fields: oldFs, Type: StructTypeUnion}}
		newF.Unions = []*Struct{{Name: "S_1", Fields: newFs, Type: StructTypeUnion}}
	case 3:
		ret := &Type{Name: "i32"}
		oldF.Services = []*Service{{Name: "Svc", Methods: []*Method{{Name: "m", ReturnType: ret, Arguments: oldFs}}}}
		newF.Services = []*Service{{Name: "Svc", Methods: []*Method{{Name: "m", ReturnType: ret, Arguments: newFs}}}}
	case 4:
		ret := &Type{Name: "i32"}
		oldF.Services = []*Service{{Name: "Svc", Methods: []*Method{{Name: "m", ReturnType: ret, Exceptions: oldFs}}}}
		newF.Services = []*Service{{Name: "Svc", Methods: []*Method{{Name: "m", ReturnType: ret, Exceptions: newFs}}}}
	}
	failed := verifAudit(oldF, newF)
	verifJudge(failed, verifFieldsVerdict(oldFs, newFs, to, tn))
	verifReach("end")
}

// VerifC18_FieldsNested is VerifC18_Fields with container types (bound 1); a
// separate entry so that the tiers can bound it differently.
func VerifC18_FieldsNested() { VerifC18_Fields() }

// VerifC18_FieldsWide is VerifC18_Fields with scalar field types and a typedef that
// may stand for a container whose element types differ between old and new.
func VerifC18_FieldsWide() {
	verifC18Wide = true
	VerifC18_Fields()
}

// (1b) a typedef whose meaning changes between the programs (scalar, list or
// map, element types differing), used as a field type, a return type, an
// argument type and a scope operation type at once; everything else identical.
func VerifC18_TypedefShapes() {
	to, tn := verifTypedefTarget(true), verifTypedefTarget(true)
	oldF, newF := verifNewFrugal("p", to), verifNewFrugal("p", tn)
	where := verifParam()
	mk := func(f *Frugal) {
		t := &Type{Name: "T32"}
		switch where {
		case 0:
			f.Structs = []*Struct{{Name: "S_1", Fields: []*Field{{ID: 1, Name: "a", Modifier: Default, Type: t}}}}
		case 1:
			f.Services = []*Service{{Name: "Svc", Methods: []*Method{{Name: "m", ReturnType: t}}}}
		case 2:
			f.Services = []*Service{{Name: "Svc", Methods: []*Method{{Name: "m", Arguments: []*Field{{ID: 1, Name: "a", Modifier: Default, Type: &Type{Name: "list", ValueType: t}}}}}}}
		case 3:
			f.Scopes = []*Scope{{Name: "Ev", Prefix: &ScopePrefix{String: ""}, Operations: []*Operation{{Name: "Op", Type: t}}}}
		}
	}
	mk(oldF)
	mk(newF)
	var v verifVerdict
	v.mustFail = !verifSameType(&Type{Name: "T32"}, &Type{Name: "T32"}, to, tn)
	verifJudge(verifAudit(oldF, newF), v)
	verifReach("end")
}

func verifRetType() *Type {
	if verifNondetBool() {
		return nil // void
	}
	return &Type{Name: verifTypeName()}
}

func verifExtends() string {
	switch verifChoice(5) {
	case 1:
		return "Base"
	case 2:
		return "Other"
	case 3:
		return "v1.Base" // the same unqualified name from two different includes
	case 4:
		return "v2.Base"
	}
	return ""
}

// verifThrows is a throws clause of 0..2 exceptions; the parser marks every
// field of a throws clause Optional.
func verifThrows(n int) []*Field {
	var out []*Field
	if n >= 1 {
		out = append(out, &Field{ID: 1, Name: "e", Modifier: Optional, Type: &Type{Name: "S_1"}})
	}
	if n >= 2 {
		out = append(out, &Field{ID: 2, Name: "f", Modifier: Optional, Type: &Type{Name: "S_1"}})
	}
	return out
}

// (2) services and methods: removal, oneway, extends, return type, exception set of void methods.
func VerifC18_Services() {
	to, tn := verifTypedefTarget(false), verifTypedefTarget(false)
	oldF, newF := verifNewFrugal("p", to), verifNewFrugal("p", tn)
	om := &Method{Name: "m", Oneway: verifNondetBool(), ReturnType: verifRetType(), Exceptions: verifThrows(verifParam() / 2)}
	nm := &Method{Name: "m", Oneway: verifNondetBool(), ReturnType: verifRetType(), Exceptions: verifThrows(verifChoice(3))}
	oe, ne := verifExtends(), verifExtends()
	oldSvc := &Service{Name: "Svc", Extends: oe, Methods: []*Method{om, {Name: "keep", ReturnType: &Type{Name: "i32"}}}}
	newSvc := &Service{Name: "Svc", Extends: ne, Methods: []*Method{{Name: "keep", ReturnType: &Type{Name: "i32"}}, {Name: "added", ReturnType: nil}}}
	methodKept := verifNondetBool()
	if methodKept {
		newSvc.Methods = append(newSvc.Methods, nm)
	}
	oldF.Services = []*Service{oldSvc}
	serviceKept := verifParam()%2 == 0
	if serviceKept {
		newF.Services = []*Service{newSvc, {Name: "AddedSvc"}}
	} else {
		newF.Services = []*Service{{Name: "AddedSvc"}}
	}
	var v verifVerdict
	if !serviceKept {
		v.mustFail = true // removed service
	} else {
		if oe != ne {
			if oe == "" {
				v.unspecified = true // adding 'extends': statement says any extends change, code only checks a changed/removed base
			} else {
				v.mustFail = true
			}
		}
		if !methodKept {
			v.mustFail = true // removed method
		} else {
			if om.Oneway != nm.Oneway {
				v.mustFail = true
			}
			if !verifSameType(om.ReturnType, nm.ReturnType, to, tn) {
				v.mustFail = true
			}
			fv := verifFieldsVerdict(om.Exceptions, nm.Exceptions, to, tn)
			if fv.mustFail {
				v.mustFail = true
			}
			if om.ReturnType == nil && len(om.Exceptions) == 0 && len(nm.Exceptions) > 0 {
				v.mustFail = true // exception added to a void method
			}
			if nm.ReturnType == nil && len(nm.Exceptions) == 0 && len(om.Exceptions) > 0 {
				v.mustFail = true // exception removed from a void method
			}
			if len(om.Exceptions) != len(nm.Exceptions) && !v.mustFail {
				v.unspecified = true // exception-set change on a non-void method
			}
		}
	}
	verifJudge(verifAudit(oldF, newF), v)
	verifReach("end")
}

func verifPrefix() *ScopePrefix {
	switch verifChoice(6) {
	case 1:
		return &ScopePrefix{String: "a"}
	case 2:
		return &ScopePrefix{String: "a.{x}", Variables: []string{"x"}}
	case 3:
		return &ScopePrefix{String: "a.{y}", Variables: []string{"y"}}
	case 4:
		return &ScopePrefix{String: "{x}.a", Variables: []string{"x"}}
	case 5:
		return &ScopePrefix{String: "b"}
	}
	return &ScopePrefix{String: ""}
}

func verifNormPrefix(p *ScopePrefix) string {
	switch p.String {
	case "a.{x}", "a.{y}":
		return "a.{}"
	case "{x}.a":
		return "{}.a"
	}
	return p.String
}

// (3) enums, scopes, constants, namespaces.
func VerifC18_EnumsScopes() {
	to, tn := verifTypedefTarget(false), verifTypedefTarget(false)
	oldF, newF := verifNewFrugal("p", to), verifNewFrugal("p", tn)
	var v verifVerdict
	switch verifParam() {
	case 0: // enum values are compared by number
		ov := []*EnumValue{{Name: "A", Value: verifRange(0, 2)}, {Name: "B", Value: verifRange(0, 2)}}
		verifAssume(ov[0].Value != ov[1].Value)
		var nv []*EnumValue
		for i := 0; i < 3; i++ {
			if verifNondetBool() {
				name := "A"
				if verifNondetBool() {
					name = "Z"
				}
				nv = append(nv, &EnumValue{Name: name, Value: i})
			}
		}
		oldF.Enums = []*Enum{{Name: "E", Values: ov}}
		enumKept := verifNondetBool()
		if enumKept {
			newF.Enums = []*Enum{{Name: "E", Values: nv}}
			for _, o := range ov {
				found := false
				for _, n := range nv {
					if n.Value == o.Value {
						found = true
					}
				}
				if !found {
					v.mustFail = true // removed enum value
				}
			}
		} else {
			v.unspecified = true // removing a whole enum: code only warns
		}
	case 1: // scopes
		op, np := verifPrefix(), verifPrefix()
		ot, nt := verifTypeName(), verifTypeName()
		oldF.Scopes = []*Scope{{Name: "Ev", Prefix: op, Operations: []*Operation{{Name: "Op", Type: &Type{Name: ot}}, {Name: "Keep", Type: &Type{Name: "S_1"}}}}}
		scopeKept, opKept := verifNondetBool(), verifNondetBool()
		ns := &Scope{Name: "Ev", Prefix: np, Operations: []*Operation{{Name: "Keep", Type: &Type{Name: "S_1"}}, {Name: "Added", Type: &Type{Name: "S_1"}}}}
		if opKept {
			ns.Operations = append(ns.Operations, &Operation{Name: "Op", Type: &Type{Name: nt}})
		}
		if scopeKept {
			newF.Scopes = []*Scope{ns}
			if verifNormPrefix(op) != verifNormPrefix(np) {
				v.mustFail = true // changed prefix (variable names do not matter)
			}
			if !opKept {
				v.mustFail = true
			} else if !verifSameType(&Type{Name: ot}, &Type{Name: nt}, to, tn) {
				v.mustFail = true // retyped operation
			}
		} else {
			v.mustFail = true // removed scope
		}
	case 2: // namespaces and constants never break
		oldF.Namespaces = []*Namespace{{Scope: "go", Value: "a"}, {Scope: "java", Value: "b"}}
		if verifNondetBool() {
			newF.Namespaces = []*Namespace{{Scope: "go", Value: verifStr(1)}}
		}
		oldF.Constants = []*Constant{{Name: "C", Type: &Type{Name: verifTypeName()}, Value: int64(1)}}
		if verifNondetBool() {
			newF.Constants = []*Constant{{Name: "C", Type: &Type{Name: verifTypeName()}, Value: int64(verifChoice(2))}}
		}
		// identical struct on both sides so that something is compared
		f := []*Field{{ID: 1, Name: "a", Modifier: Default, Type: &Type{Name: "i32"}}}
		oldF.Structs = []*Struct{{Name: "S_1", Fields: f}}
		newF.Structs = []*Struct{{Name: "S_1", Fields: f}, {Name: "Added"}}
	}
	verifJudge(verifAudit(oldF, newF), v)
	verifReach("end")
}
