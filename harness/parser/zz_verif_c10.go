package parser

import (
	"io"
	"io/fs"
	"os"
	"path/filepath"
	"strconv"
	"time"
)

// C10 (bounded): the REAL generated PEG parser (Parse of grammar.peg.go, executed
// from go/ssa) on programs RENDERED by this harness from a small model, with the
// lexical style (separator after every field / value / method, comment kind between
// items, white space) and the identifier shapes chosen by the engine: parsing
// succeeds and the model that comes back is exactly the model that was rendered.
// Include resolution (file I/O) and validate() are not part of Parse and are
// outside; see C11 for validate().

func init() {
	verifHarnesses["VerifC10_TypeNames"] = VerifC10_TypeNames
	verifHarnesses["VerifC10_Struct"] = VerifC10_Struct
	verifHarnesses["VerifC10_Enum"] = VerifC10_Enum
	verifHarnesses["VerifC10_Service"] = VerifC10_Service
	verifHarnesses["VerifC10_Scope"] = VerifC10_Scope
	verifHarnesses["VerifC10_Identifier"] = VerifC10_Identifier
}

// ---- lexical style ----

type verifLex struct{ gap, cmt string }

func verifLexStyle() verifLex {
	verifSepPattern, verifSepCount, verifIntCount = verifChoice(3), 0, 0
	return []verifLex{{" ", ""}, {"\t", " // c"}, {"  ", " # c"}, {" ", " /* c */"}}[verifChoice(4)]
}

// verifSep is the separator after one list item: Thrift allows ',', ';' or nothing.
// Successive items of one program cycle through the three, starting anywhere.
var verifSepPattern, verifSepCount int

func verifSep() string {
	verifSepCount++
	return []string{",", ";", ""}[(verifSepPattern+verifSepCount)%3]
}

// verifInt spells an integer literal. Thrift's IntConstant is ('+' | '-')? Digit+, always decimal: leading
// zeros and an explicit plus sign are valid. Successive literals of one program cycle through the
// three spellings (plain, leading zero, plus sign), starting anywhere (tied to the separator pattern).
var verifIntCount int

func verifInt(n int) string {
	verifIntCount++
	s := strconv.Itoa(n)
	if n < 0 {
		return s
	}
	switch (verifSepPattern + verifIntCount) % 3 {
	case 1:
		verifReach("int-leading-zero")
		return "0" + s
	case 2:
		verifReach("int-plus-sign")
		return "+" + s
	}
	return s
}

// verifRot is a small deterministic variation: item i of a program takes choice (start+i) mod n.
func verifRot(start, i, n int) int { return (start + i) % n }

var verifSmallTys = []verifTy{
	{"i32", &Type{Name: "i32"}},
	{"string", &Type{Name: "string"}},
	{"list<i32>", &Type{Name: "list", ValueType: &Type{Name: "i32"}}},
	{"map<string, Thing>", &Type{Name: "map", KeyType: &Type{Name: "string"}, ValueType: &Type{Name: "Thing"}}},
	{"set<binary>", &Type{Name: "set", ValueType: &Type{Name: "binary"}}},
	{"inc.Thing", &Type{Name: "inc.Thing"}},
}

// ---- types ----

type verifTy struct {
	text string
	want *Type
}

func verifNamedTy(name string) verifTy { return verifTy{name, &Type{Name: name}} }

// identifier shapes that are valid Thrift type names: plain, qualified, with
// underscores, and names that START WITH a keyword of the IDL
var verifTypeNames = []string{
	"Thing", "inc.Thing", "_x", "a_b9", "stringy", "i32x", "booleanish", "binaryData", "doubles", "byteBuf", "i16s", "i64_t",
	"mapper", "listing", "settings", "voidish", "requiredThing", "optionalThing", "onewayTicket", "throwsIt", "extendsIt", "prefixed",
}

func verifTyEq(a, b *Type) bool {
	if a == nil || b == nil {
		return a == b
	}
	return a.Name == b.Name && verifTyEq(a.KeyType, b.KeyType) && verifTyEq(a.ValueType, b.ValueType)
}

// ---- fields ----

type verifFld struct {
	id   int
	mod  FieldModifier
	ty   verifTy
	name string
}

func verifModText(m FieldModifier) string {
	switch m {
	case Required:
		return "required "
	case Optional:
		return "optional "
	}
	return ""
}

func verifRenderFields(fs []verifFld, lx verifLex, indent string) string {
	out := ""
	for _, f := range fs {
		out += indent + verifInt(f.id) + ":" + lx.gap + verifModText(f.mod) + f.ty.text + lx.gap + f.name + verifSep() + lx.cmt + "\n"
	}
	return out
}

func verifCheckFields(got []*Field, want []verifFld, forced *FieldModifier, what string) {
	verifAssert(len(got) == len(want), what+": every declared field is in the model, no other")
	for i := range want {
		g := got[i]
		verifAssert(g.ID == want[i].id && g.Name == want[i].name, what+": field id and name")
		verifAssert(verifTyEq(g.Type, want[i].ty.want), what+": field type")
		if forced != nil {
			verifAssert(g.Modifier == *forced, what+": requiredness forced by the construct")
		} else {
			verifAssert(g.Modifier == want[i].mod, what+": field requiredness")
		}
	}
}

func verifParse(text string) *Frugal {
	res, err := Parse("p.frugal", []byte(text))
	if err != nil {
		verifReach("rejected")
	}
	verifAssert(err == nil, "a syntactically valid program is parsed")
	return res.(*Frugal)
}

// (1) a type name of every shape used as field type, container element, typedef
// target, constant type, argument, return type, exception type and operation type
func VerifC10_TypeNames() {
	name := verifTypeNames[verifParam()%len(verifTypeNames)]
	lx := verifLexStyle()
	t := verifNamedTy(name)
	var text string
	site := verifChoice(8)
	switch site {
	case 0:
		text = "struct S {\n  1:" + lx.gap + t.text + lx.gap + "f" + verifSep() + lx.cmt + "\n}\n"
	case 1:
		text = "struct S {\n  1: required list<" + t.text + "> f" + verifSep() + "\n  2: map<" + t.text + "," + lx.gap + t.text + "> g\n}\n"
	case 2:
		text = "typedef " + t.text + lx.gap + "Alias" + lx.cmt + "\n"
	case 3:
		text = "const " + t.text + " K = 1" + lx.cmt + "\n"
	case 4:
		text = "service Svc {\n  " + t.text + lx.gap + "get(1: i32 k)" + verifSep() + lx.cmt + "\n}\n"
	case 5:
		text = "service Svc {\n  void put(1:" + lx.gap + t.text + " v" + verifSep() + " 2: optional " + t.text + " w)" + verifSep() + "\n}\n"
	case 6:
		text = "service Svc {\n  i32 get() throws (1: " + t.text + " e" + verifSep() + ")" + lx.cmt + "\n}\n"
	case 7:
		text = "scope Ev {\n  Created:" + lx.gap + t.text + verifSep() + lx.cmt + "\n}\n"
	}
	f := verifParse("namespace go p\n\n" + text)
	switch site {
	case 0:
		verifAssert(len(f.Structs) == 1 && len(f.Structs[0].Fields) == 1, "one struct, one field")
		fd := f.Structs[0].Fields[0]
		verifAssert(verifTyEq(fd.Type, t.want) && fd.Name == "f" && fd.Modifier == Default && fd.ID == 1, "the field has the declared type, name, id and default requiredness")
	case 1:
		verifAssert(len(f.Structs) == 1 && len(f.Structs[0].Fields) == 2, "one struct, two fields")
		a, b := f.Structs[0].Fields[0], f.Structs[0].Fields[1]
		verifAssert(a.Modifier == Required && a.Type.Name == "list" && verifTyEq(a.Type.ValueType, t.want), "list element type")
		verifAssert(b.Type.Name == "map" && verifTyEq(b.Type.KeyType, t.want) && verifTyEq(b.Type.ValueType, t.want), "map key and value type")
	case 2:
		verifAssert(len(f.Typedefs) == 1 && f.Typedefs[0].Name == "Alias" && verifTyEq(f.Typedefs[0].Type, t.want), "typedef target")
	case 3:
		verifAssert(len(f.Constants) == 1 && f.Constants[0].Name == "K" && verifTyEq(f.Constants[0].Type, t.want), "constant type")
	case 4:
		verifAssert(len(f.Services) == 1 && len(f.Services[0].Methods) == 1, "one method")
		m := f.Services[0].Methods[0]
		verifAssert(m.Name == "get" && !m.Oneway && verifTyEq(m.ReturnType, t.want) && len(m.Arguments) == 1, "return type, name, not oneway")
	case 5:
		verifAssert(len(f.Services) == 1 && len(f.Services[0].Methods) == 1, "one method")
		m := f.Services[0].Methods[0]
		verifAssert(m.Name == "put" && m.ReturnType == nil && len(m.Arguments) == 2, "void method with two arguments")
		verifAssert(verifTyEq(m.Arguments[0].Type, t.want) && m.Arguments[0].Modifier == Default && verifTyEq(m.Arguments[1].Type, t.want) && m.Arguments[1].Modifier == Optional, "argument types and requiredness")
	case 6:
		verifAssert(len(f.Services) == 1 && len(f.Services[0].Methods) == 1, "one method")
		m := f.Services[0].Methods[0]
		verifAssert(len(m.Exceptions) == 1 && verifTyEq(m.Exceptions[0].Type, t.want) && m.Exceptions[0].Name == "e", "exception type")
	case 7:
		verifAssert(len(f.Scopes) == 1 && len(f.Scopes[0].Operations) == 1 && verifTyEq(f.Scopes[0].Operations[0].Type, t.want), "operation type")
	}
	verifReach("end")
}

// (2) struct / union / exception with three fields: ids, requiredness, types, names
func VerifC10_Struct() {
	lx := verifLexStyle()
	kinds := []string{"struct", "union", "exception"}
	kind := verifParam() % 3
	ids := [][]int{{1, 2, 3}, {3, 1, 7}, {10, 200, 3000}}[verifChoice(3)]
	mstart, tstart := verifChoice(3), verifParam()/3
	var fs []verifFld
	for i := 0; i < 3; i++ {
		fs = append(fs, verifFld{id: ids[i], mod: FieldModifier(verifRot(mstart, i, 3)), ty: verifSmallTys[verifRot(tstart, i, 6)], name: []string{"a", "b_c", "stringField"}[i]})
	}
	text := "namespace go p\n" + kinds[kind] + lx.gap + "Box" + lx.gap + "{" + lx.cmt + "\n" + verifRenderFields(fs, lx, "  ") + "}" + lx.cmt + "\n"
	f := verifParse(text)
	var got []*Struct
	switch kind {
	case 0:
		got = f.Structs
	case 1:
		got = f.Unions
	case 2:
		got = f.Exceptions
	}
	verifAssert(len(f.Structs)+len(f.Unions)+len(f.Exceptions) == 1 && len(got) == 1 && got[0].Name == "Box", "exactly the declared data type")
	if kind == 1 {
		opt := Optional
		verifCheckFields(got[0].Fields, fs, &opt, "union") // every union member is optional
	} else {
		verifCheckFields(got[0].Fields, fs, nil, kinds[kind])
	}
	verifReach("end")
}

// (3) enum: explicit and implicit values get Thrift's numbering
func VerifC10_Enum() {
	lx := verifLexStyle()
	k := 2 + verifParam()%3
	names := []string{"A", "B_1", "stringC", "D"}
	text := "namespace go p\nenum" + lx.gap + "E" + lx.gap + "{\n"
	var want []int
	next := 0
	mask, nstart := verifChoice(1<<uint(k)), verifChoice(4)
	for i := 0; i < k; i++ {
		line := "  " + names[i]
		if mask&(1<<uint(i)) != 0 {
			n := []int{0, 1, 5, 40}[verifRot(nstart, i, 4)]
			line += lx.gap + "=" + lx.gap + verifInt(n)
			want = append(want, n)
			if n >= next {
				next = n + 1
			}
		} else {
			want = append(want, next)
			next++
		}
		text += line + verifSep() + lx.cmt + "\n"
	}
	text += "}\n"
	f := verifParse(text)
	verifAssert(len(f.Enums) == 1 && f.Enums[0].Name == "E" && len(f.Enums[0].Values) == k, "the enum with all its values")
	for i := 0; i < k; i++ {
		verifAssert(f.Enums[0].Values[i].Name == names[i] && f.Enums[0].Values[i].Value == want[i], "value name and number (an implicit value is one more than the largest number so far)")
	}
	verifReach("end")
}

// (4) service: extends, oneway, void, arguments, throws
func VerifC10_Service() {
	lx := verifLexStyle()
	ext := []string{"", "Base", "inc.Base"}[(verifParam()/2)%3]
	kstart, astart, tstart, ystart := verifChoice(3), verifChoice(3), verifChoice(3), verifChoice(6)
	text := "namespace go p\nservice" + lx.gap + "Svc"
	if ext != "" {
		text += " extends " + ext
	}
	text += lx.gap + "{" + lx.cmt + "\n"
	type meth struct {
		oneway bool
		ret    *verifTy
		name   string
		args   []verifFld
		throws []verifFld
	}
	var ms []meth
	n := 1 + verifParam()%2
	for i := 0; i < n; i++ {
		m := meth{name: []string{"get", "oneway_put"}[i]}
		switch verifRot(kstart, i, 3) {
		case 0:
			m.oneway = true // oneway void
		case 1: // void
		case 2:
			t := verifSmallTys[verifRot(ystart, i, 6)]
			m.ret = &t
		}
		for a := 0; a < verifRot(astart, i, 3); a++ {
			m.args = append(m.args, verifFld{id: a + 1, mod: FieldModifier(verifRot(kstart, a, 3)), ty: verifSmallTys[verifRot(ystart, a+1, 6)], name: []string{"x", "y"}[a]})
		}
		if !m.oneway {
			for e := 0; e < verifRot(tstart, i, 3); e++ {
				m.throws = append(m.throws, verifFld{id: e + 1, mod: Default, ty: verifNamedTy([]string{"Oops", "inc.Denied"}[e]), name: []string{"o", "d"}[e]})
			}
		}
		line := "  "
		if m.oneway {
			line += "oneway" + lx.gap
		}
		if m.ret != nil {
			line += m.ret.text
		} else {
			line += "void"
		}
		line += lx.gap + m.name + "("
		for ai, a := range m.args {
			if ai > 0 {
				line += " "
			}
			line += verifInt(a.id) + ": " + verifModText(a.mod) + a.ty.text + " " + a.name + verifSep()
		}
		line += ")"
		if len(m.throws) > 0 {
			line += lx.gap + "throws" + lx.gap + "("
			for ei, e := range m.throws {
				if ei > 0 {
					line += " "
				}
				line += verifInt(e.id) + ": " + e.ty.text + " " + e.name + verifSep()
			}
			line += ")"
		}
		text += line + verifSep() + lx.cmt + "\n"
		ms = append(ms, m)
	}
	text += "}\n"
	f := verifParse(text)
	verifAssert(len(f.Services) == 1 && f.Services[0].Name == "Svc" && f.Services[0].Extends == ext, "service name and base service")
	verifAssert(len(f.Services[0].Methods) == n, "every declared method")
	opt := Optional
	for i, m := range ms {
		g := f.Services[0].Methods[i]
		verifAssert(g.Name == m.name && g.Oneway == m.oneway, "method name and oneway flag")
		if m.ret == nil {
			verifAssert(g.ReturnType == nil, "void")
		} else {
			verifAssert(verifTyEq(g.ReturnType, m.ret.want), "return type")
		}
		verifCheckFields(g.Arguments, m.args, nil, "arguments")
		verifCheckFields(g.Exceptions, m.throws, &opt, "throws") // the parser marks exceptions optional
	}
	verifReach("end")
}

// (5) scope: prefix with variables, operations
func VerifC10_Scope() {
	lx := verifLexStyle()
	prefixes := []struct {
		text string
		vars []string
	}{{"", nil}, {"a", nil}, {"a.b_c", nil}, {"a.{user}", []string{"user"}}, {"{x}.b.{y_z}", []string{"x", "y_z"}}, {"v1-beta.{t}", []string{"t"}}}
	p := prefixes[verifParam()%len(prefixes)]
	text := "namespace go p\nscope" + lx.gap + "Events"
	if p.text != "" {
		text += lx.gap + "prefix" + lx.gap + p.text
	}
	text += lx.gap + "{" + lx.cmt + "\n"
	n := 1 + verifChoice(2)
	ystart := verifChoice(6)
	var tys []verifTy
	for i := 0; i < n; i++ {
		t := verifSmallTys[verifRot(ystart, i, 6)]
		tys = append(tys, t)
		text += "  " + []string{"Created", "stringOp"}[i] + ":" + lx.gap + t.text + verifSep() + lx.cmt + "\n"
	}
	text += "}\n"
	f := verifParse(text)
	verifAssert(len(f.Scopes) == 1 && f.Scopes[0].Name == "Events", "the scope")
	sc := f.Scopes[0]
	verifAssert(sc.Prefix != nil && sc.Prefix.String == p.text && len(sc.Prefix.Variables) == len(p.vars), "prefix text and number of variables")
	for i, v := range p.vars {
		verifAssert(sc.Prefix.Variables[i] == v, "prefix variable")
	}
	verifAssert(len(sc.Operations) == n, "every operation")
	for i := 0; i < n; i++ {
		verifAssert(sc.Operations[i].Name == []string{"Created", "stringOp"}[i] && verifTyEq(sc.Operations[i].Type, tys[i].want), "operation name and type")
	}
	verifReach("end")
}

func verifIdentChar(first bool) byte {
	c := verifNondetU8()
	ok := (c >= 'a' && c <= 'z') || (c >= 'A' && c <= 'Z') || c == '_'
	if !first {
		ok = ok || (c >= '0' && c <= '9')
	}
	verifAssume(ok)
	return c
}

// (6) EVERY identifier of the shape  <fixed prefix> + 1..2 arbitrary identifier
// characters, declared as a struct name and used as a field type
func VerifC10_Identifier() {
	prefix := []string{"", "X", "str", "i3", "voi", "requir", "onewa"}[verifParam()%7]
	n := 1 + verifBound()
	var tail []byte
	for i := 0; i < n; i++ {
		tail = append(tail, verifIdentChar(prefix == "" && i == 0))
	}
	name := prefix + string(tail)
	f := verifParse("namespace go p\nstruct " + name + " {\n  1: i32 a\n}\nstruct U {\n  1: " + name + " f\n}\n")
	verifAssert(len(f.Structs) == 2 && f.Structs[0].Name == name, "the declared name")
	verifAssert(len(f.Structs[1].Fields) == 1 && f.Structs[1].Fields[0].Type.Name == name && f.Structs[1].Fields[0].Name == "f" && f.Structs[1].Fields[0].Modifier == Default, "the name used as a field type")
	verifReach("end")
}

func init() {
	verifHarnesses["VerifC10_Endings"] = VerifC10_Endings
	verifHarnesses["VerifC10_Includes"] = VerifC10_Includes
}

// (7) statement terminators and the end of the file: namespace / typedef / const /
// struct / service statements ended by a newline, ';' (same line, after blanks, on a
// later line, followed by a comment), and a file that ends with a newline, without
// one, with trailing blanks or inside a '//' or '#' comment
func VerifC10_Endings() {
	estart, ecount := verifChoice(8), 0
	eos := func() string { // successive statements cycle through the eight terminators from a chosen start
		ecount++
		return []string{"\n", ";\n", " ;\n", "\n;\n", "; // c\n", " // c\n", " # c\n", ";"}[(estart+ecount)%8]
	}
	last := []string{"\n", "", "  ", " // the end", " # the end", "\n\n", ";", " ; "}[verifChoice(8)]
	var text string
	switch verifParam() {
	case 0: // the file ends with a typedef
		text = "namespace go p" + eos() + "struct S {\n  1: i32 a\n}" + eos() + "typedef i64 Stamp" + last
	case 1: // ... with a constant
		text = "namespace go p" + eos() + "typedef i64 Stamp" + eos() + "const i32 K = 7" + last
	case 2: // ... with a struct / a service
		text = "namespace go p" + eos() + "typedef i64 Stamp" + eos() + "const i32 K = 7" + eos() + "struct S {\n  1: i32 a\n}" + eos() + "service Svc {\n  void ping()\n}" + last
	}
	f := verifParse(text)
	verifAssert(len(f.Namespaces) == 1 && f.Namespaces[0].Scope == "go" && f.Namespaces[0].Value == "p", "the namespace")
	verifAssert(len(f.Typedefs) == 1 && f.Typedefs[0].Name == "Stamp" && f.Typedefs[0].Type.Name == "i64", "the typedef")
	switch verifParam() {
	case 0:
		verifAssert(len(f.Structs) == 1 && len(f.Structs[0].Fields) == 1 && len(f.Constants) == 0, "the struct")
	case 1:
		verifAssert(len(f.Constants) == 1 && f.Constants[0].Name == "K" && len(f.Structs) == 0, "the constant")
	case 2:
		verifAssert(len(f.Constants) == 1 && len(f.Structs) == 1 && len(f.Services) == 1 && len(f.Services[0].Methods) == 1, "constant, struct and service")
	}
	verifReach("end")
}

// ---- include resolution on an in-memory file system ----

// verifFiles is the file system: os.Open, (*os.File).Stat / Name / Close and
// ParseReader are redirected by the engine to the functions below, so that the real
// parseFrugal (path joining, cache, cycle detection, name handling) runs unchanged.
var verifFiles = map[string]string{}
var verifParsed []string
var verifOpen = map[*os.File]string{}

type verifNoFile struct{ name string }

func (e *verifNoFile) Error() string { return "open " + e.name + ": no such file or directory" }

func verifOsOpen(name string) (*os.File, error) {
	if _, ok := verifFiles[name]; !ok {
		return nil, &verifNoFile{name}
	}
	f := new(os.File)
	verifOpen[f] = name
	return f, nil
}

func verifFileClose(f *os.File) error { return nil }
func verifFileName(f *os.File) string { return verifOpen[f] }

type verifFileInfo struct{ name string }

func (i verifFileInfo) Name() string       { return i.name }
func (i verifFileInfo) Size() int64        { return 0 }
func (i verifFileInfo) Mode() fs.FileMode  { return 0o644 }
func (i verifFileInfo) ModTime() time.Time { return time.Time{} }
func (i verifFileInfo) IsDir() bool        { return false }
func (i verifFileInfo) Sys() interface{}   { return nil }

func verifFileStat(f *os.File) (os.FileInfo, error) {
	return verifFileInfo{filepath.Base(verifOpen[f])}, nil
}

func verifParseReader(filename string, r io.Reader, opts ...Option) (interface{}, error) {
	verifParsed = append(verifParsed, filename)
	return Parse(filename, []byte(verifFiles[filename]), opts...)
}

// (8) include resolution and caching (parseFrugal): a program whose includes form a
// chain, a diamond, or contain two DIFFERENT files with the same base name in
// different directories: every include resolves to the file next to the including
// file, every file is parsed once, and each program sees the declarations of exactly
// the file it included.
func VerifC10_Includes() {
	verifFiles = map[string]string{}
	verifParsed = nil
	inc := func(path string) string { return "include \"" + path + "\"\n" }
	decl := func(name string) string { return "struct " + name + " {\n  1: i32 a\n}\n" }
	sameName := verifParam() == 2
	switch verifParam() {
	case 0: // chain  main -> a/mid -> a/leaf
		verifFiles["/r/main.frugal"] = inc("a/mid.frugal") + "struct M {\n  1: mid.Mid m\n}\n"
		verifFiles["/r/a/mid.frugal"] = inc("leaf.frugal") + "struct Mid {\n  1: leaf.Leaf l\n}\n"
		verifFiles["/r/a/leaf.frugal"] = decl("Leaf")
	case 1: // diamond  main -> left, right -> shared
		verifFiles["/r/main.frugal"] = inc("left.frugal") + inc("right.frugal") + "struct M {\n  1: left.L l\n  2: right.R r\n}\n"
		verifFiles["/r/left.frugal"] = inc("shared.frugal") + "struct L {\n  1: shared.Sh s\n}\n"
		verifFiles["/r/right.frugal"] = inc("shared.frugal") + "struct R {\n  1: shared.Sh s\n}\n"
		verifFiles["/r/shared.frugal"] = decl("Sh")
	case 2: // two different files called shared.frugal
		verifFiles["/r/main.frugal"] = inc("a/shared.frugal") + inc("b/mid.frugal") + "struct M {\n  1: shared.Label l\n  2: mid.Report r\n}\n"
		verifFiles["/r/a/shared.frugal"] = decl("Label")
		verifFiles["/r/b/mid.frugal"] = inc("shared.frugal") + "struct Report {\n  1: shared.Code c\n}\n"
		verifFiles["/r/b/shared.frugal"] = decl("Code")
	case 3: // the same shape with ARBITRARY one-letter base names s and t (equal or not)
		c1, c2 := verifNondetU8(), verifNondetU8()
		verifAssume(c1 >= 'a' && c1 <= 'z' && c2 >= 'a' && c2 <= 'z' && c1 != 'm' && c2 != 'm')
		sn, tn := "s"+string([]byte{c1}), "s"+string([]byte{c2})
		verifFiles["/r/main.frugal"] = inc("a/"+sn+".frugal") + inc("b/mid.frugal") + "struct M {\n  1: " + sn + ".Label l\n  2: mid.Report r\n}\n"
		verifFiles["/r/a/"+sn+".frugal"] = decl("Label")
		verifFiles["/r/b/mid.frugal"] = inc(tn+".frugal") + "struct Report {\n  1: " + tn + ".Code c\n}\n"
		verifFiles["/r/b/"+tn+".frugal"] = decl("Code")
		f, err := parseFrugal("/r/main.frugal", []string{}, map[string]*Frugal{})
		verifAssert(err == nil && f != nil, "a program whose includes exist and are valid is accepted")
		a, mid := f.ParsedIncludes[sn], f.ParsedIncludes["mid"]
		verifAssert(a != nil && len(a.Structs) == 1 && a.Structs[0].Name == "Label", "main's include is the file in a/")
		verifAssert(mid != nil && mid.ParsedIncludes[tn] != nil && len(mid.ParsedIncludes[tn].Structs) == 1 && mid.ParsedIncludes[tn].Structs[0].Name == "Code", "mid's include is its sibling in b/")
		if sn == tn {
			verifReach("same-base-name")
		}
		verifReach("end")
		return
	}
	f, err := parseFrugal("/r/main.frugal", []string{}, map[string]*Frugal{}) // what ParseFrugal does (that name is taken by the C18 harness)
	verifAssert(err == nil && f != nil, "a program whose includes exist and are valid is accepted")
	count := map[string]int{}
	for _, p := range verifParsed {
		count[p]++
	}
	for name := range verifFiles {
		verifAssert(count[name] == 1, "every file of the program is read exactly once")
	}
	switch verifParam() {
	case 0:
		mid := f.ParsedIncludes["mid"]
		verifAssert(mid != nil && len(mid.Structs) == 1 && mid.Structs[0].Name == "Mid", "the include resolves to a/mid.frugal")
		leaf := mid.ParsedIncludes["leaf"]
		verifAssert(leaf != nil && len(leaf.Structs) == 1 && leaf.Structs[0].Name == "Leaf", "the include of the include resolves next to the including file")
	case 1:
		l, r := f.ParsedIncludes["left"], f.ParsedIncludes["right"]
		verifAssert(l != nil && r != nil && l.ParsedIncludes["shared"] != nil && l.ParsedIncludes["shared"] == r.ParsedIncludes["shared"], "both sides of a diamond share one parsed program")
	case 2:
		a := f.ParsedIncludes["shared"]
		verifAssert(a != nil && len(a.Structs) == 1 && a.Structs[0].Name == "Label", "main's shared is a/shared.frugal")
		mid := f.ParsedIncludes["mid"]
		verifAssert(mid != nil && mid.ParsedIncludes["shared"] != nil && len(mid.ParsedIncludes["shared"].Structs) == 1 && mid.ParsedIncludes["shared"].Structs[0].Name == "Code", "mid's shared is b/shared.frugal")
		verifAssert(sameName, "two files with one base name")
	}
	verifReach("end")
}
