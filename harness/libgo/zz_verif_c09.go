package frugal

import (
	"bytes"
	"time"

	"github.com/apache/thrift/lib/go/thrift"
)

// C09: the request context travels with the call and back.

func init() {
	verifHarnesses["VerifC09_ContextRoundTrip"] = VerifC09_ContextRoundTrip
}

func verifProto(tr thrift.TTransport) *FProtocol {
	return NewFProtocolFactory(thrift.NewTBinaryProtocolFactoryDefault()).GetProtocol(tr)
}

func verifReserved(k string) bool {
	return k == opIDHeader || k == cidHeader || k == timeoutHeader
}

func VerifC09_ContextRoundTrip() {
	maxLen := verifBound()
	cid := verifStr(1 + verifChoice(2))
	ctx := NewFContext(cid)
	clientOp, _ := ctx.RequestHeader(opIDHeader)

	// user request headers (non-reserved names, arbitrary bytes)
	n := verifParam()
	user := make(map[string]string)
	for i := 0; i < n; i++ {
		k := verifStr(1 + verifChoice(maxLen))
		verifAssume(!verifReserved(k))
		v := verifStr(verifChoice(maxLen + 1))
		ctx.AddRequestHeader(k, v)
		user[k] = v
	}
	ms := int64(verifChoice(6)) * 7919
	ctx.SetTimeout(time.Duration(ms) * time.Millisecond)
	before := ctx.RequestHeaders()

	// client -> wire -> server
	wire := thrift.NewTMemoryBuffer()
	verifAssert(verifProto(wire).WriteRequestHeader(ctx) == nil, "WriteRequestHeader succeeds")
	opBefore := nextOpID
	sctx, err := verifProto(&thrift.TMemoryBuffer{Buffer: bytes.NewBuffer(wire.Bytes())}).ReadRequestHeader()
	verifAssert(err == nil && sctx != nil, "server decodes the request header")

	sh := sctx.RequestHeaders()
	for k, v := range user {
		got, ok := sctx.RequestHeader(k)
		verifAssert(ok && got == v, "handler sees every user request header unchanged")
	}
	verifAssert(len(sh) == len(user)+3, "handler sees no additional request headers")
	verifAssert(sctx.CorrelationID() == cid, "handler sees the correlation id")
	verifAssert(sctx.Timeout() == ctx.Timeout(), "handler sees the timeout")
	verifAssert(sctx.Timeout() == time.Duration(ms)*time.Millisecond, "timeout value is the one set")
	sop, serr := getOpID(sctx)
	verifAssert(serr == nil && sop == opBefore+1 && nextOpID == opBefore+1, "handler context carries a fresh op id from the local counter")
	verifAssert(sh[opIDHeader] != clientOp, "fresh op id differs from the request's")
	rop, ok := sctx.ResponseHeader(opIDHeader)
	verifAssert(ok && rop == clientOp, "response carries the request's op id")
	rcid, ok := sctx.ResponseHeader(cidHeader)
	verifAssert(ok && rcid == cid, "response carries the correlation id")
	verifAssert(len(sctx.ResponseHeaders()) == 2, "no other response header initially")

	// handler sets response headers
	m := verifChoice(3)
	set := make(map[string]string)
	for i := 0; i < m; i++ {
		k := verifStr(1 + verifChoice(maxLen))
		verifAssume(k != opIDHeader)
		v := verifStr(verifChoice(maxLen + 1))
		sctx.AddResponseHeader(k, v)
		set[k] = v
	}

	// server -> wire -> client
	back := thrift.NewTMemoryBuffer()
	verifAssert(verifProto(back).WriteResponseHeader(sctx) == nil, "WriteResponseHeader succeeds")
	err = verifProto(&thrift.TMemoryBuffer{Buffer: bytes.NewBuffer(back.Bytes())}).ReadResponseHeader(ctx)
	verifAssert(err == nil, "client decodes the response header")
	for k, v := range set {
		got, ok := ctx.ResponseHeader(k)
		verifAssert(ok && got == v, "caller sees every response header the handler set")
	}
	if _, isSet := set[cidHeader]; !isSet {
		got, ok := ctx.ResponseHeader(cidHeader)
		verifAssert(ok && got == cid, "caller sees the echoed correlation id")
	}
	_, has := ctx.ResponseHeader(opIDHeader)
	verifAssert(!has, "the client's own op id response header is not overwritten")
	after := ctx.RequestHeaders()
	verifAssert(verifMapEq(before, after) && verifMapEq(after, before), "request headers untouched by the response")
	verifReach("end")
}

func init() {
	verifHarnesses["VerifC09_ThroughProcessor"] = VerifC09_ThroughProcessor
}

// The same obligations observed where the property states them: inside the
// handler, behind FBaseProcessor.Process and a processor function of the
// generated shape, and in the reply frame the server produced.
func VerifC09_ThroughProcessor() {
	maxLen := verifBound()
	fctx := NewFContext("cid")
	k := verifStr(1 + verifChoice(maxLen))
	verifAssume(!verifReserved(k))
	v := verifStr(verifChoice(maxLen + 1))
	fctx.AddRequestHeader(k, v)
	timeouts := []time.Duration{0, time.Millisecond, 250 * time.Millisecond, 5 * time.Second, time.Hour}
	want := timeouts[verifChoice(len(timeouts))]
	fctx.SetTimeout(want)

	rk := verifStr(1 + verifChoice(maxLen))
	verifAssume(rk != opIDHeader)
	rv := verifStr(verifChoice(maxLen + 1))
	h := &verifPingHandler{outcome: verifOutcome(verifOutValue, 0)}
	var seenTimeout time.Duration
	var seenHeaders map[string]string
	var seenOp string
	pf := NewFProtocolFactory(thrift.NewTBinaryProtocolFactoryDefault())
	// the handler may call another service on the way: with the inbound context itself or with a clone
	leaf := &verifPingHandler{outcome: verifOutcome(verifOutValue, 0)}
	onwardClient := NewFStandardClient(NewFServiceProvider(&verifSlowLoop{proc: verifPingProcessor(leaf), pf: pf}, pf))
	onward := verifChoice(3)
	h.onCall = func(c FContext) {
		seenTimeout = c.Timeout()
		seenHeaders = c.RequestHeaders()
		seenOp = verifOpID(c)
		c.AddResponseHeader(rk, rv)
		if onward > 0 {
			oc := c
			if onward == 2 {
				oc = Clone(c)
			}
			res := &verifPingResult{}
			verifAssert(onwardClient.Call(oc, "ping", &verifMsg{a: "x", b: "y", c: "z"}, res) == nil && res.success != nil, "the onward call succeeds")
			verifReach("onward-call")
		}
	}
	proc := verifPingProcessor(h)
	in := verifRequestFrame(fctx, verifReqKnown, "a")
	out := NewTMemoryOutputBuffer(0)
	err := proc.Process(pf.GetProtocol(&thrift.TMemoryBuffer{Buffer: bytes.NewBuffer(in)}), pf.GetProtocol(out))
	verifAssert(err == nil && h.calls == 1, "the handler ran")
	verifAssert(seenTimeout == want, "the handler observes exactly the caller's timeout (0 = no deadline included)")
	got, ok := seenHeaders[k]
	verifAssert(ok && got == v, "the handler observes the user header")
	verifAssert(seenHeaders[cidHeader] == "cid", "the handler observes the correlation id")
	verifAssert(len(seenHeaders) == 4, "and nothing else besides _cid, _opid, _timeout")
	verifAssert(seenOp != verifOpID(fctx), "the handler context carries a fresh op id")
	rep, _, pok := verifParseReply(out.Bytes())
	verifAssert(pok && rep.opid == verifOpID(fctx) && rep.cid == "cid", "the reply carries the request's op id and correlation id")
	if rk != cidHeader {
		verifAssert(rep.headers[rk] == rv, "a response header set by the handler is in the reply")
	}

	// the same context is used for a second call after its timeout was changed (nothing else touched)
	want2 := timeouts[verifChoice(len(timeouts))]
	fctx.SetTimeout(want2)
	onward = 0
	out2 := NewTMemoryOutputBuffer(0)
	err = proc.Process(pf.GetProtocol(&thrift.TMemoryBuffer{Buffer: bytes.NewBuffer(verifRequestFrame(fctx, verifReqKnown, "b"))}), pf.GetProtocol(out2))
	verifAssert(err == nil && h.calls == 2, "the handler ran again")
	verifAssert(seenTimeout == want2, "the second call's handler observes the timeout set before the second call")
	got, ok = seenHeaders[k]
	verifAssert(ok && got == v && len(seenHeaders) == 4, "and the same user header, nothing else")
	verifReach("end")
}
