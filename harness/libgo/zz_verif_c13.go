package frugal

import (
	"context"
	"time"

	"github.com/apache/thrift/lib/go/thrift"
	"github.com/nats-io/nats.go"
)

// C13: every call returns within its FContext timeout.

func init() {
	verifHarnesses["VerifC13_DeadlineExists"] = VerifC13_DeadlineExists
	verifHarnesses["VerifC13_AdapterReturns"] = VerifC13_AdapterReturns
	verifHarnesses["VerifC13_NatsReturns"] = VerifC13_NatsReturns
}

// (a) a positive timeout always yields a positive deadline that is not later
// than the timeout plus one millisecond (the wire unit).
func VerifC13_DeadlineExists() {
	d := time.Duration(verifNondetI64())
	verifAssume(d > 0 && d < time.Duration(1)<<uint(verifBound()))
	c := NewFContext("c")
	c.SetTimeout(d)
	got := c.Timeout()
	verifAssert(got > 0, "a positive timeout installs a deadline")
	verifAssert(got <= d || got-d < time.Millisecond, "the deadline is not later than the timeout plus the 1ms wire granularity")
	verifAssert(d-got < time.Millisecond, "the deadline is not earlier than the timeout minus the 1ms wire granularity")
	verifReach("end")
}

// verifStallPipe is a pipe whose write or flush can block forever.
type verifStallPipe struct {
	*verifPipe
	stallWrite, stallFlush bool
	never                  chan struct{}
}

func (p *verifStallPipe) Write(b []byte) (int, error) {
	if p.stallWrite {
		<-p.never
	}
	return p.verifPipe.Write(b)
}

func (p *verifStallPipe) Flush(ctx context.Context) error {
	if p.stallFlush {
		<-p.never
	}
	return p.verifPipe.Flush(ctx)
}

// (b) adapter transport: whatever the peer does (silent, late, stalled write or
// flush), Request and Oneway return, with TIMED_OUT when nothing arrived, and
// leave no registration behind.
func VerifC13_AdapterReturns() {
	base := newVerifPipe()
	pipe := &verifStallPipe{verifPipe: base, never: make(chan struct{})}
	behaviour := verifParam()
	switch behaviour {
	case 1:
		pipe.stallWrite = true
	case 3:
		pipe.stallFlush = true
	}
	ft := NewAdapterTransport(pipe).(*fAdapterTransport)
	verifAssert(ft.Open() == nil, "open")
	c := NewFContext("c")
	timeouts := []time.Duration{500 * time.Microsecond, time.Millisecond, 2500 * time.Microsecond}
	c.SetTimeout(timeouts[verifChoice(len(timeouts))])
	done := make(chan verifResult, 1)
	oneway := verifChoice(2) == 1
	var elapsed time.Duration
	go func() {
		t0 := time.Now()
		if oneway {
			err := ft.Oneway(c, []byte{0, 0, 0, 1, 7})
			elapsed = time.Since(t0)
			done <- verifResult{err: err}
			return
		}
		res, err := ft.Request(c, []byte{0, 0, 0, 1, 7})
		elapsed = time.Since(t0)
		r := verifResult{err: err}
		if err == nil && res != nil {
			r.opid, r.data = verifFrameOpID(res)
			r.valid = true
		}
		done <- r
	}()
	if behaviour == 2 {
		// a late answer: may arrive before or after the deadline
		<-base.sent
		base.feed(verifResponseFrame(verifOpID(c), []byte{1}))
		verifReach("late-answer")
	}
	r := <-done // a call that never returns is a deadlock here
	verifAssert(elapsed <= c.Timeout(), "the call returns no later than its timeout")
	if r.err != nil {
		te, ok := r.err.(thrift.TTransportException)
		verifAssert(ok && te.TypeId() == TRANSPORT_EXCEPTION_TIMED_OUT, "the only failure is TIMED_OUT")
		verifReach("timed-out")
	} else if !oneway {
		verifAssert(behaviour == 2 && r.opid == verifOpID(c), "success only with the peer's answer")
		verifReach("answered")
	}
	reg := ft.registry.(*fRegistryImpl)
	reg.mu.RLock()
	left := len(reg.channels)
	reg.mu.RUnlock()
	verifAssert(left == 0, "no registration is left behind")
	verifReach("end")
}

// (c) NATS transport, same obligation.
func VerifC13_NatsReturns() {
	b := newVerifBroker()
	tr := NewFNatsTransport(&nats.Conn{}, "svc", "_INBOX.c").(*fNatsTransport)
	verifAssert(tr.Open() == nil, "open")
	c := NewFContext("c")
	timeouts := []time.Duration{500 * time.Microsecond, time.Millisecond, 2500 * time.Microsecond}
	c.SetTimeout(timeouts[verifChoice(len(timeouts))])
	behaviour := verifParam()
	if behaviour == 2 {
		b.stallFlush = true // connected, accepts writes, never answers PING
		verifReach("stalled-flush")
	}
	if behaviour == 1 {
		// late answer published by the "server" when it sees the request
		b.onPublish = func(p verifPub) {
			if p.reply != "" {
				go b.inject(p.reply, "", verifResponseFrame(verifOpID(c), []byte{1}))
			}
		}
	}
	done := make(chan verifResult, 1)
	oneway := verifChoice(2) == 1
	var elapsed time.Duration
	go func() {
		t0 := time.Now()
		if oneway {
			err := tr.Oneway(c, []byte{0, 0, 0, 1, 7})
			elapsed = time.Since(t0)
			done <- verifResult{err: err}
			return
		}
		res, err := tr.Request(c, []byte{0, 0, 0, 1, 7})
		elapsed = time.Since(t0)
		r := verifResult{err: err}
		if err == nil && res != nil {
			r.opid, r.data = verifFrameOpID(res)
			r.valid = true
		}
		done <- r
	}()
	r := <-done
	verifAssert(elapsed <= c.Timeout(), "the call returns no later than its timeout")
	if oneway {
		verifAssert(r.err == nil, "a oneway returns once the message is handed to the connection")
	} else if r.err != nil {
		te, ok := r.err.(thrift.TTransportException)
		verifAssert(ok && te.TypeId() == TRANSPORT_EXCEPTION_TIMED_OUT, "the only failure is TIMED_OUT")
		verifReach("timed-out")
	} else {
		verifAssert(behaviour == 1 && r.opid == verifOpID(c), "success only with the peer's answer")
		verifReach("answered")
	}
	reg := tr.registry.(*fRegistryImpl)
	reg.mu.RLock()
	left := len(reg.channels)
	reg.mu.RUnlock()
	verifAssert(left == 0, "no registration is left behind")
	verifReach("end")
}

func init() {
	verifHarnesses["VerifC13_AdapterLifecycleStall"] = VerifC13_AdapterLifecycleStall
}

type verifStallOpenClose struct {
	*verifPipe
	stallOpen, stallClose bool
	never                 chan struct{}
	entered               chan struct{}
}

func (p *verifStallOpenClose) Open() error {
	if p.stallOpen {
		p.entered <- struct{}{}
		<-p.never
	}
	return p.verifPipe.Open()
}

func (p *verifStallOpenClose) Close() error {
	if p.stallClose {
		p.entered <- struct{}{}
		<-p.never
	}
	return p.verifPipe.Close()
}

// (b') a call issued while ANOTHER goroutine is stuck in the transport's Open or Close
// (the peer stalls the handshake / the shutdown): the call still returns within its
// own timeout - it must not queue behind the connection-lifecycle lock.
func VerifC13_AdapterLifecycleStall() {
	base := newVerifPipe()
	pipe := &verifStallOpenClose{verifPipe: base, never: make(chan struct{}), entered: make(chan struct{}, 1)}
	ft := NewAdapterTransport(pipe).(*fAdapterTransport)
	if verifParam() == 0 {
		verifAssert(ft.Open() == nil, "open")
		pipe.stallClose = true
		go ft.Close()
		verifReach("stalled-close")
	} else {
		pipe.stallOpen = true
		go ft.Open()
		verifReach("stalled-open")
	}
	<-pipe.entered // the other goroutine is inside the stalled operation
	c := NewFContext("c")
	timeout := []time.Duration{time.Millisecond, 100 * time.Millisecond}[verifChoice(2)]
	c.SetTimeout(timeout)
	t0 := time.Now()
	var err error
	if verifChoice(2) == 0 {
		_, err = ft.Request(c, []byte{0, 0, 0, 1, 7})
	} else {
		err = ft.Oneway(c, []byte{0, 0, 0, 1, 7})
	}
	_ = err
	verifAssert(time.Since(t0) <= timeout, "the call returns no later than its timeout although the transport is stuck opening / closing")
	verifReach("end")
}
