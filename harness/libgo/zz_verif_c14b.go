package frugal

import (
	"bytes"

	"github.com/apache/thrift/lib/go/thrift"
	"github.com/nats-io/nats.go"
)

// C14 on the message-oriented servers: every request kind x handler outcome through
// the NATS server's processFrame and through the HTTP handler, followed by a
// well-formed request that must be unaffected.

func init() {
	verifHarnesses["VerifC14_NatsServerReplies"] = VerifC14_NatsServerReplies
	verifHarnesses["VerifC14_HTTPReplies"] = VerifC14_HTTPReplies
}

// verifServe runs the NATS server as it really runs (Serve in a goroutine, requests
// arriving through its subscription, Stop draining them) on the given requests. The
// harnesses go through Serve rather than calling processFrame directly so that they
// do not depend on where the server sets its per-request state up.
func verifServe(srv FServer, b *verifNatsBroker, msgs ...verifPub) {
	served := make(chan error, 1)
	go func() { served <- srv.Serve() }()
	verifBlockUntil(func() bool { return len(b.subs) >= 1 })
	for _, m := range msgs {
		b.inject("svc", m.reply, m.data)
	}
	verifAssert(srv.Stop() == nil, "Stop returns")
	verifAssert(<-served == nil, "Serve returns")
}

func verifPublishedTo(b *verifNatsBroker, subject string) [][]byte {
	var out [][]byte
	for _, p := range b.published {
		if p.subject == subject {
			out = append(out, p.data)
		}
	}
	return out
}

func VerifC14_NatsServerReplies() {
	h := &verifPingHandler{}
	b := newVerifBroker()
	srv := NewFNatsServerBuilder(&nats.Conn{}, verifPingProcessor(h), NewFProtocolFactory(thrift.NewTBinaryProtocolFactoryDefault()), []string{"svc"}).Build()
	type round struct {
		kind, outcome int
		appType       int32
		arg           string
		fctx          FContext
	}
	var rs []round
	var msgs []verifPub
	for i := 0; i < 2; i++ {
		r := round{kind: verifParam(), outcome: verifChoice(verifOutcomes), appType: int32(verifRange(0, 200)), arg: verifStr(verifChoice(verifBound() + 1)), fctx: NewFContext("cid" + string(rune('0'+i)))}
		if i == 1 {
			r.kind = verifReqKnown
		}
		rs = append(rs, r)
		msgs = append(msgs, verifPub{subject: "svc", reply: "reply" + string(rune('0'+i)), data: prependFrameSize(verifRequestFrame(r.fctx, r.kind, r.arg))})
	}
	// the handler's outcome is the one of the request it is called for (told apart by the correlation id)
	cur := 0
	h.onCall = func(c FContext) {
		cur = 0
		if c.CorrelationID() == "cid1" {
			cur = 1
		}
	}
	h.outcome = func(a string) (string, error) { return verifOutcome(rs[cur].outcome, rs[cur].appType)(a) }
	verifServe(srv, b, msgs...)
	calls := 0
	for i, r := range rs {
		got := verifPublishedTo(b, "reply"+string(rune('0'+i)))
		if r.kind == verifReqTruncatedArgs && len(got) == 0 {
			verifReach("undecodable-begin")
			continue
		}
		if r.kind == verifReqOneway {
			verifAssert(len(got) <= 1, "oneway: at most one error reply")
			if r.outcome == verifOutValue {
				verifAssert(len(got) == 0, "a successful oneway request publishes nothing")
			}
			calls++
			continue
		}
		verifAssert(len(got) == 1, "exactly one message is published to the request's reply subject")
		if r.kind == verifReqKnown {
			calls++
		}
		rep, rest, ok := verifParseReply(got[0])
		verifAssert(ok && len(rest) == 0, "which is exactly one well-formed reply frame")
		verifAssert(rep.opid == verifOpID(r.fctx) && rep.cid == r.fctx.CorrelationID(), "carrying the request's op id and correlation id")
		switch r.kind {
		case verifReqUnknownMethod:
			verifAssert(rep.mtype == thrift.EXCEPTION && rep.appType == APPLICATION_EXCEPTION_UNKNOWN_METHOD, "unknown method -> UNKNOWN_METHOD exception")
		case verifReqKnown:
			switch r.outcome {
			case verifOutValue:
				verifAssert(rep.mtype == thrift.REPLY && rep.success != nil && *rep.success == "re:"+r.arg, "success -> REPLY with the value")
			case verifOutDeclared:
				verifAssert(rep.mtype == thrift.REPLY && rep.failure != nil && rep.failure.msg == "d"+r.arg, "declared exception -> REPLY with the exception field")
			case verifOutUndeclared:
				verifAssert(rep.mtype == thrift.EXCEPTION && rep.appType == APPLICATION_EXCEPTION_INTERNAL_ERROR, "undeclared error -> INTERNAL_ERROR exception")
			case verifOutAppException:
				verifAssert(rep.mtype == thrift.EXCEPTION && rep.appType == r.appType, "application exception -> the handler's own type")
			}
		}
	}
	verifAssert(len(b.published) == len(verifPublishedTo(b, "reply0"))+len(verifPublishedTo(b, "reply1")), "nothing is published anywhere else")
	if rs[0].kind != verifReqTruncatedArgs && rs[0].kind != verifReqWrongTypeArgs {
		verifAssert(h.calls == calls, "the handler ran exactly once per request that names a known method")
	}
	verifReach("end")
}

func VerifC14_HTTPReplies() {
	verifConcreteUnknown = true
	h := &verifPingHandler{}
	handler := NewFrugalHandlerFunc(verifPingProcessor(h), NewFProtocolFactory(thrift.NewTBinaryProtocolFactoryDefault()))
	for round := 0; round < 2; round++ {
		kind := verifParam()
		limited := false
		if kind == verifReqKinds {
			// a well-formed request from a caller that accepts at most 10 bytes back: 413, and
			// whatever the handler buffered for it must not leak into the next reply
			kind, limited = verifReqKnown, round == 0
		}
		if round == 1 {
			kind = verifReqKnown
		}
		outcome := verifChoice(verifOutcomes)
		if round == 1 {
			verifAssume(outcome == verifOutValue || outcome == verifOutUndeclared)
		}
		// the reply travels base64-encoded: concrete contents (a symbolic byte would fork
		// 64 ways per output character in the encoder's table look-up)
		appType, arg := int32(77), "b"
		if round == 0 {
			if outcome == verifOutAppException {
				appType = []int32{1, 6, 77, 100}[verifChoice(4)]
			}
			arg = []string{"", "a", "bc"}[verifChoice(3)]
		}
		h.outcome = verifOutcome(outcome, appType)
		fctx := NewFContext("cid")
		frame := prependFrameSize(verifRequestFrame(fctx, kind, arg))
		calls := h.calls
		lim := ""
		if limited {
			lim = "10"
		}
		status, reply := verifHTTPCall(handler, frame, lim)
		if limited {
			verifAssert(status == 413 && h.calls == calls+1, "a reply over the caller's limit is answered with 413 after the handler ran once")
			verifReach("over-limit")
			continue
		}
		if kind == verifReqTruncatedArgs && h.calls == calls && status != 200 {
			// the frame ended inside the message header itself: the handler answers 400
			verifAssert(status == 400, "an undecodable request is answered with 400")
			verifReach("undecodable-begin")
			continue
		}
		verifAssert(status == 200, "the HTTP exchange succeeds")
		if kind == verifReqOneway {
			verifAssert(h.calls == calls+1, "the handler ran exactly once")
			if outcome == verifOutValue {
				verifAssert(len(reply) == 4 && reply[0]|reply[1]|reply[2]|reply[3] == 0, "a successful oneway request is answered with an empty frame")
			}
			continue
		}
		verifCheckReply(reply, fctx, kind, outcome, appType, arg, h, calls)
	}
	verifReach("end")
}

func init() {
	verifHarnesses["VerifC14_SurvivesFailedReply"] = VerifC14_SurvivesFailedReply
}

// A reply (or error reply) that cannot be written because the output transport is
// bounded (the NATS server's 1 MiB buffer; here any limit 1..250 so that every write
// stage can be the one that fails) must not wedge the processor: the call returns and
// the next request on the same processor is answered (the write mutex is free again).
func VerifC14_SurvivesFailedReply() {
	h := &verifPingHandler{}
	proc := verifPingProcessor(h)
	pf := NewFProtocolFactory(thrift.NewTBinaryProtocolFactoryDefault())
	kind := verifParam() // known / unknown method / ... as in VerifC14_ProcessorReplies
	outcome := verifChoice(verifOutcomes)
	h.outcome = verifOutcome(outcome, 77)
	f1 := NewFContext("c1")
	in := verifRequestFrame(f1, kind, "a")
	limit := uint(verifRange(1, 250))
	out := NewTMemoryOutputBuffer(limit)
	_ = proc.Process(pf.GetProtocol(&thrift.TMemoryBuffer{Buffer: bytes.NewBuffer(in)}), pf.GetProtocol(out))
	if out.HasWriteData() {
		verifReach("first-answered")
		verifAssert(uint(len(out.Bytes())) <= limit, "the bounded buffer never holds more than its limit")
	} else {
		verifReach("first-unanswerable")
	}
	// the next request: unbounded output, must be answered normally
	h.outcome = verifOutcome(verifOutValue, 0)
	f2 := NewFContext("c2")
	out2 := NewTMemoryOutputBuffer(0)
	calls := h.calls
	err := proc.Process(pf.GetProtocol(&thrift.TMemoryBuffer{Buffer: bytes.NewBuffer(verifRequestFrame(f2, verifReqKnown, "b"))}), pf.GetProtocol(out2))
	verifAssert(err == nil && out2.HasWriteData(), "the next request is processed and answered")
	verifCheckReply(out2.Bytes(), f2, verifReqKnown, verifOutValue, 0, "b", h, calls)
	verifReach("end")
}

func init() {
	verifHarnesses["VerifC14_NatsServeWorkers"] = VerifC14_NatsServeWorkers
}

// The NATS server as it really runs (Serve, 1..2 workers, requests arriving through
// the subscription): two requests processed concurrently are each answered with
// exactly one well-formed reply on their own reply subject.
func VerifC14_NatsServeWorkers() {
	b := newVerifBroker()
	h := &verifPingHandler{}
	h.outcome = verifOutcome(verifOutValue, 0)
	h.onCall = func(FContext) { verifYield("handler running") }
	workers := uint(1 + verifParam())
	srv := NewFNatsServerBuilder(&nats.Conn{}, verifPingProcessor(h), NewFProtocolFactory(thrift.NewTBinaryProtocolFactoryDefault()), []string{"svc"}).
		WithWorkerCount(workers).Build()
	served := make(chan error, 1)
	go func() { served <- srv.Serve() }()
	verifBlockUntil(func() bool { return len(b.subs) == 1 })
	f1, f2 := NewFContext("c1"), NewFContext("c2")
	a1, a2 := verifStr(1), verifStr(1)
	b.inject("svc", "reply1", prependFrameSize(verifRequestFrame(f1, verifReqKnown, a1)))
	b.inject("svc", "reply2", prependFrameSize(verifRequestFrame(f2, verifReqKnown, a2)))
	verifAssert(srv.Stop() == nil, "Stop")
	verifAssert(<-served == nil, "Serve returns")
	for i, f := range []FContext{f1, f2} {
		got := verifPublishedTo(b, []string{"reply1", "reply2"}[i])
		verifAssert(len(got) == 1, "exactly one message on the request's reply subject")
		rep, rest, ok := verifParseReply(got[0])
		verifAssert(ok && len(rest) == 0, "which is exactly one well-formed reply frame")
		verifAssert(rep.opid == verifOpID(f) && rep.cid == f.CorrelationID(), "for this request")
		verifAssert(rep.mtype == thrift.REPLY && rep.success != nil && *rep.success == "re:"+[]string{a1, a2}[i], "with the handler's value for this request's argument")
	}
	verifAssert(h.calls == 2, "the handler ran once per request")
	verifReach("end")
}
