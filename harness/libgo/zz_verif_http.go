package frugal

import (
	"bytes"
	"encoding/base64"
	"encoding/binary"
	"io"
	"net/http"
	"strconv"

	"github.com/apache/thrift/lib/go/thrift"
)

// HTTP server entry point (NewFrugalHandlerFunc) for C05 / C12 / C14.

func init() {
	verifHarnesses["VerifC05_HTTPHandler"] = VerifC05_HTTPHandler
	verifHarnesses["VerifC12_HTTPResponseLimit"] = VerifC12_HTTPResponseLimit
}

type verifResponseWriter struct {
	hdr    http.Header
	status int
	body   bytes.Buffer
}

func (w *verifResponseWriter) Header() http.Header {
	if w.hdr == nil {
		w.hdr = http.Header{}
	}
	return w.hdr
}
func (w *verifResponseWriter) Write(b []byte) (int, error) {
	if w.status == 0 {
		w.status = 200
	}
	return w.body.Write(b)
}
func (w *verifResponseWriter) WriteHeader(code int) {
	if w.status == 0 {
		w.status = code
	}
}

func verifHTTPRequest(body []byte, contentLength int64, limit string) *http.Request {
	r := &http.Request{Method: "POST", Header: http.Header{}, Body: io.NopCloser(bytes.NewReader(body)), ContentLength: contentLength}
	if limit != "" {
		r.Header["X-Frugal-Payload-Limit"] = []string{limit}
	}
	return r
}

// verifHTTPCall sends one framed request through the handler and returns status and decoded frame.
func verifHTTPCall(h http.HandlerFunc, frame []byte, limit string) (int, []byte) {
	enc := base64.StdEncoding.EncodeToString(frame)
	w := &verifResponseWriter{}
	h(w, verifHTTPRequest([]byte(enc), int64(len(enc)), limit))
	if w.status != 200 {
		return w.status, nil
	}
	dec, err := base64.StdEncoding.DecodeString(w.body.String())
	if err != nil {
		return -1, nil
	}
	return w.status, dec
}

// C05: arbitrary request body bytes, arbitrary Content-Length, arbitrary limit header:
// the handler answers (some status) and never panics; a following well-formed request is served.
func VerifC05_HTTPHandler() {
	hd := &verifPingHandler{outcome: verifOutcome(verifOutValue, 0)}
	h := NewFrugalHandlerFunc(verifPingProcessor(hd), NewFProtocolFactory(thrift.NewTBinaryProtocolFactoryDefault()))
	// the body is base64 text: every byte is one of a few classes (a symbolic byte would
	// fork 256 ways at the decoder's table lookup)
	n := verifParam()
	alphabet := []byte{'A', '=', '!', '\n'}
	body := make([]byte, n)
	for i := range body {
		body[i] = alphabet[verifChoice(len(alphabet))]
	}
	cl := int64([]int{-1, 0, 3, 4, 40}[verifChoice(5)])
	limit := ""
	switch verifChoice(3) {
	case 1:
		limit = []string{"x", "-1", "0"}[verifChoice(3)]
	case 2:
		limit = "7"
	}
	w := &verifResponseWriter{}
	verifNoPanic("HTTP handler panics", func() {
		h(w, verifHTTPRequest(body, cl, limit))
	})
	verifAssert(w.status != 0, "the handler always answers")
	// a later well-formed request is served
	f := NewFContext("c")
	st, reply := verifHTTPCall(h, prependFrameSize(verifRequestFrame(f, verifReqKnown, "a")), "")
	verifAssert(st == 200 && len(reply) > 4, "a later well-formed request is answered")
	rep, _, ok := verifParseReply(reply)
	verifAssert(ok && rep.opid == verifOpID(f) && rep.success != nil && *rep.success == "re:a", "with its own reply")
	verifReach("end")
}

// C12: the client-requested response limit: an oversize response is reported with 413
// (RESPONSE_TOO_LARGE on the client), an in-limit one is delivered, and the same
// handler keeps working for the next request whatever the previous one did.
func VerifC12_HTTPResponseLimit() {
	hd := &verifPingHandler{outcome: verifOutcome(verifOutValue, 0)}
	h := NewFrugalHandlerFunc(verifPingProcessor(hd), NewFProtocolFactory(thrift.NewTBinaryProtocolFactoryDefault()))
	rounds := 2 + verifParam()
	for i := 0; i < rounds; i++ {
		f := NewFContext("c")
		arg := []string{"", "x", "yy"}[verifChoice(1+verifBound())]
		frame := prependFrameSize(verifRequestFrame(f, verifReqKnown, arg))
		// the reply's size, computed with an unlimited call first
		st0, full := verifHTTPCall(h, frame, "")
		verifAssert(st0 == 200, "unlimited call succeeds")
		size := len(full) - 4
		var lim int
		switch verifChoice(4) {
		case 0:
			lim = size - 1
		case 1:
			lim = size
		case 2:
			lim = size + 1
		case 3:
			lim = 1
		}
		st, reply := verifHTTPCall(h, frame, strconv.Itoa(lim))
		if size > lim {
			verifAssert(st == http.StatusRequestEntityTooLarge, "a response over the requested limit is reported as 413")
			verifReach("too-large")
		} else {
			verifAssert(st == 200, "a response within the requested limit is delivered")
			verifAssert(len(reply) >= 4 && int(binary.BigEndian.Uint32(reply)) == len(reply)-4 && len(reply)-4 == size, "with an exact frame prefix")
			rep, _, ok := verifParseReply(reply)
			verifAssert(ok && rep.opid == verifOpID(f) && rep.success != nil && *rep.success == "re:"+arg, "and the right content")
			verifReach("fits")
		}
	}
	verifReach("end")
}

func init() {
	verifHarnesses["VerifC05_HTTPClient"] = VerifC05_HTTPClient
}

var verifHTTPResponse *http.Response
var verifHTTPErr error
var verifHTTPCalls int

// redirect target for (*http.Client).Do: the peer's answer is whatever the harness prepared.
func verifHTTPDo(c *http.Client, req *http.Request) (*http.Response, error) {
	verifHTTPCalls++
	return verifHTTPResponse, verifHTTPErr
}

// C05: HTTP client transport: an arbitrary status and an arbitrary decoded body
// (any frame-size field, any length) never crash the caller.
func VerifC05_HTTPClient() {
	tr := NewFHTTPTransportBuilder(&http.Client{}, "http://h/x").Build()
	n := verifParam()
	decoded := verifBytes(n, 0) // what the body decodes to: symbolic frame-size field and content
	// keep the base64 text concrete in shape: encode natively-concrete placeholder and patch
	// the decoded bytes back in through a decoder-free path is not possible, so the body is
	// produced by encoding class-limited bytes
	for i := range decoded {
		decoded[i] = []byte{0x00, 0x01, 0x7f, 0xff}[verifChoice(4)]
	}
	body := base64.StdEncoding.EncodeToString(decoded)
	status := []int{200, 413, 500}[verifChoice(3)]
	verifHTTPResponse = &http.Response{StatusCode: status, Body: io.NopCloser(bytes.NewReader([]byte(body)))}
	verifHTTPErr = nil
	verifNoPanic("fHTTPTransport.Request panics", func() {
		res, err := tr.Request(NewFContext("c"), []byte{0, 0, 0, 1, 7})
		if err == nil && res != nil {
			verifReach("frame-returned")
		}
		if err != nil {
			verifReach("rejected")
		}
	})
	// and a following well-formed response is delivered
	good := prependFrameSize([]byte{9, 9})
	verifHTTPResponse = &http.Response{StatusCode: 200, Body: io.NopCloser(bytes.NewReader([]byte(base64.StdEncoding.EncodeToString(good))))}
	res, err := tr.Request(NewFContext("c"), []byte{0, 0, 0, 1, 7})
	verifAssert(err == nil && res != nil, "a later well-formed response is delivered")
	verifReach("end")
}

func init() {
	verifHarnesses["VerifC05_HTTPCall"] = VerifC05_HTTPCall
}

// C05: a two-way call over the HTTP transport whose peer answers with an arbitrary
// decoded body (including the empty frame a oneway gets): FStandardClient.Call returns a
// value or an error, never panics, and the client is still usable.
func VerifC05_HTTPCall() {
	tr := NewFHTTPTransportBuilder(&http.Client{}, "http://h/x").Build()
	pf := NewFProtocolFactory(thrift.NewTBinaryProtocolFactoryDefault())
	client := NewFStandardClient(NewFServiceProvider(tr, pf))
	n := verifParam()
	decoded := make([]byte, n)
	for i := range decoded {
		decoded[i] = []byte{0x00, 0x01, 0x7f, 0xff}[verifChoice(4)]
	}
	status := []int{200, 413, 500}[verifChoice(3)]
	verifHTTPResponse = &http.Response{StatusCode: status, Body: io.NopCloser(bytes.NewReader([]byte(base64.StdEncoding.EncodeToString(decoded))))}
	verifHTTPErr = nil
	verifNoPanic("FStandardClient.Call over HTTP panics", func() {
		err := client.Call(NewFContext("c"), "ping", &verifMsg{a: "a", b: "y", c: "z"}, &verifPingResult{})
		if err != nil {
			verifReach("rejected")
		}
	})
	// a following well-formed reply is delivered to the caller
	h := &verifPingHandler{outcome: verifOutcome(verifOutValue, 0)}
	handler := NewFrugalHandlerFunc(verifPingProcessor(h), pf)
	fctx := NewFContext("c2")
	_, reply := verifHTTPCall(handler, prependFrameSize(verifRequestFrame(fctx, verifReqKnown, "q")), "")
	verifHTTPResponse = &http.Response{StatusCode: 200, Body: io.NopCloser(bytes.NewReader([]byte(base64.StdEncoding.EncodeToString(reply))))}
	res := &verifPingResult{}
	err := client.Call(fctx, "ping", &verifMsg{a: "q", b: "y", c: "z"}, res)
	verifAssert(err == nil && res.success != nil && *res.success == "re:q", "a later well-formed reply reaches the caller")
	verifReach("end")
}
