package frugal

import (
	"bytes"
	"encoding/base64"
	"encoding/binary"
	"io"
	"net/http"
	"strconv"

	"github.com/apache/thrift/lib/go/thrift"
	"net/url"
	"time"
)

// HTTP server entry point (NewFrugalHandlerFunc) for C05 / C12 / C14.

func init() {
	verifHarnesses["VerifC05_HTTPHandler"] = VerifC05_HTTPHandler
	verifHarnesses["VerifC12_HTTPResponseLimit"] = VerifC12_HTTPResponseLimit
}

type verifResponseWriter struct {
	hdr    http.Header
	status int
	body   bytes.Buffer
}

func (w *verifResponseWriter) Header() http.Header {
	if w.hdr == nil {
		w.hdr = http.Header{}
	}
	return w.hdr
}
func (w *verifResponseWriter) Write(b []byte) (int, error) {
	if w.status == 0 {
		w.status = 200
	}
	return w.body.Write(b)
}
func (w *verifResponseWriter) WriteHeader(code int) {
	if w.status == 0 {
		w.status = code
	}
}

func verifHTTPRequest(body []byte, contentLength int64, limit string) *http.Request {
	r := &http.Request{Method: "POST", Header: http.Header{}, Body: io.NopCloser(bytes.NewReader(body)), ContentLength: contentLength}
	if limit != "" {
		r.Header["X-Frugal-Payload-Limit"] = []string{limit}
	}
	return r
}

// verifHTTPCall sends one framed request through the handler and returns status and decoded frame.
func verifHTTPCall(h http.HandlerFunc, frame []byte, limit string) (int, []byte) {
	enc := base64.StdEncoding.EncodeToString(frame)
	w := &verifResponseWriter{}
	h(w, verifHTTPRequest([]byte(enc), int64(len(enc)), limit))
	if w.status != 200 {
		return w.status, nil
	}
	dec, err := base64.StdEncoding.DecodeString(w.body.String())
	if err != nil {
		return -1, nil
	}
	return w.status, dec
}

// C05: arbitrary request body bytes, arbitrary Content-Length, arbitrary limit header:
// the handler answers (some status) and never panics; a following well-formed request is served.
func VerifC05_HTTPHandler() {
	hd := &verifPingHandler{outcome: verifOutcome(verifOutValue, 0)}
	h := NewFrugalHandlerFunc(verifPingProcessor(hd), NewFProtocolFactory(thrift.NewTBinaryProtocolFactoryDefault()))
	// the body is base64 text: every byte is one of a few classes (a symbolic byte would
	// fork 256 ways at the decoder's table lookup)
	n := verifParam()
	alphabet := []byte{'A', '=', '!', '\n'}
	body := make([]byte, n)
	for i := range body {
		body[i] = alphabet[verifChoice(len(alphabet))]
	}
	cl := int64([]int{-1, 0, 3, 4, 40}[verifChoice(5)])
	limit := ""
	switch verifChoice(3) {
	case 1:
		limit = []string{"x", "-1", "0"}[verifChoice(3)]
	case 2:
		limit = "7"
	}
	w := &verifResponseWriter{}
	verifNoPanic("HTTP handler panics", func() {
		h(w, verifHTTPRequest(body, cl, limit))
	})
	verifAssert(w.status != 0, "the handler always answers")
	// a later well-formed request is served
	f := NewFContext("c")
	st, reply := verifHTTPCall(h, prependFrameSize(verifRequestFrame(f, verifReqKnown, "a")), "")
	verifAssert(st == 200 && len(reply) > 4, "a later well-formed request is answered")
	rep, _, ok := verifParseReply(reply)
	verifAssert(ok && rep.opid == verifOpID(f) && rep.success != nil && *rep.success == "re:a", "with its own reply")
	verifReach("end")
}

// C12: the client-requested response limit: an oversize response is reported with 413
// (RESPONSE_TOO_LARGE on the client), an in-limit one is delivered, and the same
// handler keeps working for the next request whatever the previous one did.
func VerifC12_HTTPResponseLimit() {
	hd := &verifPingHandler{outcome: verifOutcome(verifOutValue, 0)}
	h := NewFrugalHandlerFunc(verifPingProcessor(hd), NewFProtocolFactory(thrift.NewTBinaryProtocolFactoryDefault()))
	rounds := 2 + verifParam()
	for i := 0; i < rounds; i++ {
		f := NewFContext("c")
		arg := []string{"", "x", "yy"}[verifChoice(1+verifBound())]
		frame := prependFrameSize(verifRequestFrame(f, verifReqKnown, arg))
		// the reply's size, computed with an unlimited call first
		st0, full := verifHTTPCall(h, frame, "")
		verifAssert(st0 == 200, "unlimited call succeeds")
		size := len(full) - 4
		var lim int
		switch verifChoice(4) {
		case 0:
			lim = size - 1
		case 1:
			lim = size
		case 2:
			lim = size + 1
		case 3:
			lim = 1
		}
		st, reply := verifHTTPCall(h, frame, strconv.Itoa(lim))
		if size > lim {
			verifAssert(st == http.StatusRequestEntityTooLarge, "a response over the requested limit is reported as 413")
			verifReach("too-large")
		} else {
			verifAssert(st == 200, "a response within the requested limit is delivered")
			verifAssert(len(reply) >= 4 && int(binary.BigEndian.Uint32(reply)) == len(reply)-4 && len(reply)-4 == size, "with an exact frame prefix")
			rep, _, ok := verifParseReply(reply)
			verifAssert(ok && rep.opid == verifOpID(f) && rep.success != nil && *rep.success == "re:"+arg, "and the right content")
			verifReach("fits")
		}
	}
	verifReach("end")
}

func init() {
	verifHarnesses["VerifC05_HTTPClient"] = VerifC05_HTTPClient
}

var verifHTTPResponse *http.Response
var verifHTTPErr error
var verifHTTPCalls int

// redirect target for (*http.Client).Do: the peer's answer is whatever the harness prepared.
func verifHTTPDo(c *http.Client, req *http.Request) (*http.Response, error) {
	verifHTTPCalls++
	if verifHTTPDoFn != nil {
		return verifHTTPDoFn(req)
	}
	if verifHTTPServer != nil {
		resp := verifHTTPServe(req)
		verifLastStatus = resp.StatusCode
		return resp, nil
	}
	return verifHTTPResponse, verifHTTPErr
}

// verifHTTPDoFn, when set, is the peer: it may look at the request's context, let
// virtual time pass, fail, or answer.
var verifHTTPDoFn func(req *http.Request) (*http.Response, error)

// C05: HTTP client transport: an arbitrary status and an arbitrary decoded body
// (any frame-size field, any length) never crash the caller.
func VerifC05_HTTPClient() {
	tr := NewFHTTPTransportBuilder(&http.Client{}, "http://h/x").Build()
	n := verifParam()
	decoded := verifBytes(n, 0) // what the body decodes to: symbolic frame-size field and content
	// keep the base64 text concrete in shape: encode natively-concrete placeholder and patch
	// the decoded bytes back in through a decoder-free path is not possible, so the body is
	// produced by encoding class-limited bytes
	for i := range decoded {
		decoded[i] = []byte{0x00, 0x01, 0x7f, 0xff}[verifChoice(4)]
	}
	body := base64.StdEncoding.EncodeToString(decoded)
	status := []int{200, 413, 500}[verifChoice(3)]
	verifHTTPResponse = &http.Response{StatusCode: status, Body: io.NopCloser(bytes.NewReader([]byte(body)))}
	verifHTTPErr = nil
	verifNoPanic("fHTTPTransport.Request panics", func() {
		res, err := tr.Request(NewFContext("c"), []byte{0, 0, 0, 1, 7})
		if err == nil && res != nil {
			verifReach("frame-returned")
		}
		if err != nil {
			verifReach("rejected")
		}
	})
	// and a following well-formed response is delivered
	good := prependFrameSize([]byte{9, 9})
	verifHTTPResponse = &http.Response{StatusCode: 200, Body: io.NopCloser(bytes.NewReader([]byte(base64.StdEncoding.EncodeToString(good))))}
	res, err := tr.Request(NewFContext("c"), []byte{0, 0, 0, 1, 7})
	verifAssert(err == nil && res != nil, "a later well-formed response is delivered")
	verifReach("end")
}

func init() {
	verifHarnesses["VerifC05_HTTPCall"] = VerifC05_HTTPCall
}

// C05: a two-way call over the HTTP transport whose peer answers with an arbitrary
// decoded body (including the empty frame a oneway gets): FStandardClient.Call returns a
// value or an error, never panics, and the client is still usable.
func VerifC05_HTTPCall() {
	tr := NewFHTTPTransportBuilder(&http.Client{}, "http://h/x").Build()
	pf := NewFProtocolFactory(thrift.NewTBinaryProtocolFactoryDefault())
	client := NewFStandardClient(NewFServiceProvider(tr, pf))
	n := verifParam()
	decoded := make([]byte, n)
	for i := range decoded {
		decoded[i] = []byte{0x00, 0x01, 0x7f, 0xff}[verifChoice(4)]
	}
	status := []int{200, 413, 500}[verifChoice(3)]
	verifHTTPResponse = &http.Response{StatusCode: status, Body: io.NopCloser(bytes.NewReader([]byte(base64.StdEncoding.EncodeToString(decoded))))}
	verifHTTPErr = nil
	verifNoPanic("FStandardClient.Call over HTTP panics", func() {
		err := client.Call(NewFContext("c"), "ping", &verifMsg{a: "a", b: "y", c: "z"}, &verifPingResult{})
		if err != nil {
			verifReach("rejected")
		}
	})
	// a following well-formed reply is delivered to the caller
	h := &verifPingHandler{outcome: verifOutcome(verifOutValue, 0)}
	handler := NewFrugalHandlerFunc(verifPingProcessor(h), pf)
	fctx := NewFContext("c2")
	_, reply := verifHTTPCall(handler, prependFrameSize(verifRequestFrame(fctx, verifReqKnown, "q")), "")
	verifHTTPResponse = &http.Response{StatusCode: 200, Body: io.NopCloser(bytes.NewReader([]byte(base64.StdEncoding.EncodeToString(reply))))}
	res := &verifPingResult{}
	err := client.Call(fctx, "ping", &verifMsg{a: "q", b: "y", c: "z"}, res)
	verifAssert(err == nil && res.success != nil && *res.success == "re:q", "a later well-formed reply reaches the caller")
	verifReach("end")
}

func init() {
	verifHarnesses["VerifC12_HTTPEndToEndLimit"] = VerifC12_HTTPEndToEndLimit
}

// verifHTTPServer, when set, makes the Do model hand the client's real *http.Request to
// a real frugal HTTP handler and turn what the handler wrote into the *http.Response.
var verifHTTPServer http.HandlerFunc

func verifHTTPServe(req *http.Request) *http.Response {
	w := &verifResponseWriter{}
	verifHTTPServer(w, req)
	status := w.status
	if status == 0 {
		status = 200
	}
	return &http.Response{StatusCode: status, Header: w.Header(), Body: io.NopCloser(bytes.NewReader(w.body.Bytes()))}
}

// C12 end to end over HTTP: the real client transport (with a response size limit)
// against the real handler: for replies of every size around the limit, the client
// either receives the reply intact (the server judged it within the limit) or the
// RESPONSE_TOO_LARGE error (the server answered 413) - a reply the server sent is
// never rejected by the client, an oversize one never delivered; and the client
// keeps working.
func VerifC12_HTTPEndToEndLimit() {
	hd := &verifPingHandler{outcome: verifOutcome(verifOutValue, 0)}
	pf := NewFProtocolFactory(thrift.NewTBinaryProtocolFactoryDefault())
	verifHTTPServer = NewFrugalHandlerFunc(verifPingProcessor(hd), pf)
	verifHTTPResponse = nil
	// reply size for the longest argument, measured without a limit
	args := []string{"", "a", "ab", "abcd", "abcdefgh", "abcdefghijklmnop", "abcdefghijklmnopqrstuvwxyzabcdef"}
	base := NewFHTTPTransportBuilder(&http.Client{}, "http://h/x").Build()
	plain := NewFStandardClient(NewFServiceProvider(base, pf))
	res0 := &verifPingResult{}
	verifAssert(plain.Call(NewFContext("c"), "ping", &verifMsg{a: args[3], b: "y", c: "z"}, res0) == nil, "unlimited call works")
	// a limit somewhere inside the range of reply sizes the arguments produce
	limit := uint(60 + 4*verifChoice(12) + verifParam())
	if verifChoice(3) > 0 {
		// "every configured size limit": also limits far above any reply (4 GiB and up, MaxInt64 used as "unlimited"):
		// the limit travels as a decimal header and must survive that unchanged
		limit = []uint{0, 1 << 32, 1<<63 - 1}[verifChoice(3)]
		verifAssume(limit != 0)
		verifReach("huge-limit")
	}
	tr := NewFHTTPTransportBuilder(&http.Client{}, "http://h/x").WithResponseSizeLimit(limit).Build()
	client := NewFStandardClient(NewFServiceProvider(tr, pf))
	for round := 0; round < 2; round++ {
		arg := args[verifChoice(len(args))]
		calls := hd.calls
		res := &verifPingResult{}
		fctx := NewFContext("c")
		err := client.Call(fctx, "ping", &verifMsg{a: arg, b: "y", c: "z"}, res)
		verifAssert(hd.calls == calls+1, "the request reached the handler")
		served413 := verifLastStatus == http.StatusRequestEntityTooLarge
		if served413 {
			te, ok := err.(thrift.TTransportException)
			verifAssert(ok && te.TypeId() == TRANSPORT_EXCEPTION_RESPONSE_TOO_LARGE, "413 -> RESPONSE_TOO_LARGE")
			verifReach("too-large")
		} else {
			verifAssert(err == nil && res.success != nil && *res.success == "re:"+arg, "a reply the server sent within the limit is delivered intact")
			verifReach("fits")
		}
	}
	verifHTTPServer = nil
	verifReach("end")
}

var verifLastStatus int

func init() {
	verifHarnesses["VerifC13_HTTPReturns"] = VerifC13_HTTPReturns
}

// C13 on the HTTP transport: whatever the peer does (silent; drops the connection
// after d < timeout without answering and is silent from then on; answers after d),
// Request / Oneway return no later than the FContext timeout after they were called
// (virtual clock: no scheduling allowance needed), with TIMED_OUT when nothing came.
func VerifC13_HTTPReturns() {
	tr := NewFHTTPTransportBuilder(&http.Client{}, "http://h/x").Build()
	timeouts := []time.Duration{time.Millisecond, 20 * time.Millisecond, 500 * time.Millisecond}
	timeout := timeouts[verifChoice(len(timeouts))]
	d := timeout * time.Duration(1+verifChoice(3)) / 4 // 1/4, 1/2, 3/4 of the timeout
	behaviour := verifParam()
	calls := 0
	answered := false
	silent := func(req *http.Request) (*http.Response, error) {
		<-req.Context().Done()
		return nil, &url.Error{Op: "Post", URL: "http://h/x", Err: req.Context().Err()}
	}
	// the peer takes d to act; a request whose deadline passes first is abandoned by net/http
	takes := func(req *http.Request, d time.Duration) bool {
		if dl, ok := req.Context().Deadline(); req.Context().Err() != nil || (ok && time.Until(dl) < d) {
			return false
		}
		verifAdvanceClock(d)
		return true
	}
	verifHTTPDoFn = func(req *http.Request) (*http.Response, error) {
		calls++
		switch behaviour {
		case 1:
			if calls == 1 && takes(req, d) {
				return nil, &url.Error{Op: "Post", URL: "http://h/x", Err: io.EOF} // connection lost before any response
			}
		case 2:
			if !takes(req, d) {
				return silent(req)
			}
			answered = true
			good := prependFrameSize([]byte{9, 9})
			return &http.Response{StatusCode: 200, Body: io.NopCloser(bytes.NewReader([]byte(base64.StdEncoding.EncodeToString(good))))}, nil
		}
		return silent(req)
	}
	c := NewFContext("c")
	c.SetTimeout(timeout)
	t0 := time.Now()
	var err error
	var res thrift.TTransport
	if verifChoice(2) == 0 {
		res, err = tr.Request(c, []byte{0, 0, 0, 1, 7})
	} else {
		err = tr.Oneway(c, []byte{0, 0, 0, 1, 7})
	}
	elapsed := time.Since(t0)
	verifAssert(elapsed <= timeout, "the call returns no later than its timeout")
	switch behaviour {
	case 0:
		te, ok := err.(thrift.TTransportException)
		verifAssert(ok && te.TypeId() == TRANSPORT_EXCEPTION_TIMED_OUT, "a silent peer is reported as TIMED_OUT")
		verifReach("timed-out")
	case 1:
		verifAssert(err != nil, "a lost connection is an error")
		verifReach("connection-lost")
	case 2:
		if answered {
			verifAssert(err == nil, "an answer inside the timeout is delivered")
			verifReach("answered")
		}
		_ = res
	}
	verifHTTPDoFn = nil
	verifReach("end")
}
