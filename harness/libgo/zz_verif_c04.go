package frugal

import (
	"bytes"
	"encoding/binary"
	"io"
	"time"

	"github.com/apache/thrift/lib/go/thrift"
)

// C04: FContext headers survive the wire unchanged in the documented v0 layout.

func init() {
	verifHarnesses["VerifC04_RoundTrip"] = VerifC04_RoundTrip
	verifHarnesses["VerifC04_AddHeaders"] = VerifC04_AddHeaders
	verifHarnesses["VerifC04_WireToContext"] = VerifC04_WireToContext
}

// verifHeaderMap builds a map with up to n entries whose names and values are
// arbitrary byte strings of length 0..maxLen (equal names collapse, as in Go).
// Every iteration order of the map is explored.
// The second result is an equal map with a fixed iteration order, for the oracle.
func verifHeaderMap(n, maxLen int) (map[string]string, map[string]string) {
	m := make(map[string]string)
	ref := make(map[string]string)
	for i := 0; i < n; i++ {
		k := verifStr(verifChoice(maxLen + 1))
		v := verifStr(verifChoice(maxLen + 1))
		m[k] = v
		ref[k] = v
	}
	verifMapOrder(m)
	return m, ref
}

func verifMapEq(a, b map[string]string) bool {
	if len(a) != len(b) {
		return false
	}
	for k, v := range a {
		w, ok := b[k]
		if !ok || w != v {
			return false
		}
	}
	return true
}

// verifRefParse is the reference reader for documentation/protocol.md:
// version 0, BE32 total, then (BE32 len, name, BE32 len, value)*.
// It returns the pairs in wire order and the offset of the first byte after the block.
func verifRefParse(b []byte) (names, values []string, end int, ok bool) {
	if len(b) < 5 || b[0] != 0 {
		return nil, nil, 0, false
	}
	total := int(binary.BigEndian.Uint32(b[1:5]))
	end = 5 + total
	if end > len(b) {
		return nil, nil, 0, false
	}
	i := 5
	for i < end {
		if i+4 > end {
			return nil, nil, 0, false
		}
		nl := int(binary.BigEndian.Uint32(b[i : i+4]))
		i += 4
		if i+nl > end {
			return nil, nil, 0, false
		}
		names = append(names, string(b[i:i+nl]))
		i += nl
		if i+4 > end {
			return nil, nil, 0, false
		}
		vl := int(binary.BigEndian.Uint32(b[i : i+4]))
		i += 4
		if i+vl > end {
			return nil, nil, 0, false
		}
		values = append(values, string(b[i:i+vl]))
		i += vl
	}
	return names, values, end, true
}

// verifCheckLayout asserts that wire is exactly the documented encoding of m.
func verifCheckLayout(wire []byte, m map[string]string) {
	names, values, end, ok := verifRefParse(wire)
	verifAssert(ok, "layout: well-formed v0 header block")
	verifAssert(end == len(wire), "layout: total size field covers exactly the pairs")
	verifAssert(len(names) == len(m), "layout: one pair per map entry")
	size := 0
	for i := range names {
		v, present := m[names[i]]
		verifAssert(present && v == values[i], "layout: pair is an entry of the map")
		for j := 0; j < i; j++ {
			verifAssert(names[j] != names[i], "layout: no name written twice")
		}
		size += 8 + len(names[i]) + len(values[i])
	}
	verifAssert(int(binary.BigEndian.Uint32(wire[1:5])) == size, "layout: total = sum(8+|k|+|v|)")
}

func VerifC04_RoundTrip() {
	n := verifParam()
	impl, m := verifHeaderMap(n, verifBound())
	payload := verifBytes(verifChoice(3), 0)

	// FProtocol.writeHeader is the path used for requests and responses
	out := thrift.NewTMemoryBuffer()
	fp := &FProtocol{TProtocol: thrift.NewTBinaryProtocolFactoryDefault().GetProtocol(out)}
	verifAssert(fp.writeHeader(impl) == nil, "writeHeader succeeds")
	wire := out.Bytes()
	verifCheckLayout(wire, m)

	stream := append(append([]byte{}, wire...), payload...)

	// stream reader
	rd := &thrift.TMemoryBuffer{Buffer: bytes.NewBuffer(append([]byte{}, stream...))}
	got, err := readHeader(rd)
	verifAssert(err == nil, "stream reader accepts the encoding")
	verifAssert(verifMapEq(got, m) && verifMapEq(m, got), "stream reader returns the identical map")
	verifAssert(bytes.Equal(rd.Bytes(), payload), "stream reader leaves exactly the payload unread")

	// stream reader over a transport that delivers at most k bytes per Read (a socket,
	// frugal's own framed transport at a buffer boundary): same map, same rest
	chunk := 1 + verifChoice(3)
	srd := &verifShortReader{data: append([]byte{}, stream...), chunk: chunk}
	got3, err := readHeader(srd)
	verifAssert(err == nil, "stream reader accepts the encoding from a short-reading transport")
	verifAssert(verifMapEq(got3, m) && verifMapEq(m, got3), "stream reader returns the identical map from a short-reading transport")
	verifAssert(bytes.Equal(srd.data, payload), "short-reading transport: exactly the payload is left unread")

	// frame reader
	got2, err := getHeadersFromFrame(stream)
	verifAssert(err == nil, "frame reader accepts the encoding")
	verifAssert(verifMapEq(got2, m) && verifMapEq(m, got2), "frame reader returns the identical map")
	if len(m) == n && n > 0 {
		verifReach("distinct-names")
	}
	if len(m) < n {
		verifReach("collapsed-names")
	}
	verifReach("end")
}

// verifShortReader is a reader that hands out at most chunk bytes per Read call.
type verifShortReader struct {
	data  []byte
	chunk int
}

func (r *verifShortReader) Read(p []byte) (int, error) {
	if len(r.data) == 0 {
		return 0, io.EOF
	}
	n := r.chunk
	if n > len(p) {
		n = len(p)
	}
	if n > len(r.data) {
		n = len(r.data)
	}
	copy(p, r.data[:n])
	r.data = r.data[n:]
	return n, nil
}

// VerifC04_WireToContext: a request header block written by another implementation
// (any header set that contains an op id; timeout and correlation id optional)
// becomes a context whose request headers are exactly the wire map (the op id is
// replaced by a local one and echoed in the response headers), and a response header
// block becomes exactly the response headers.
func VerifC04_WireToContext() {
	_, user := verifHeaderMap(verifParam(), verifBound())
	wireMap := map[string]string{}
	for k, v := range user {
		wireMap[k] = v
	}
	wireMap[opIDHeader] = "77"
	if verifNondetBool() {
		wireMap[cidHeader] = "cid-x"
		verifReach("with-cid")
	}
	if verifNondetBool() {
		wireMap[timeoutHeader] = "250"
		verifReach("with-timeout")
	}
	wire := writeMarshaler.marshalHeaders(wireMap)
	pf := NewFProtocolFactory(thrift.NewTBinaryProtocolFactoryDefault())
	fctx, err := pf.GetProtocol(&thrift.TMemoryBuffer{Buffer: bytes.NewBuffer(wire)}).ReadRequestHeader()
	verifAssert(err == nil, "a header block with an op id is accepted")
	got := fctx.RequestHeaders()
	verifAssert(len(got) == len(wireMap), "the context has exactly the headers of the wire")
	for k, v := range wireMap {
		g, ok := got[k]
		verifAssert(ok, "every wire header is a request header")
		if k != opIDHeader {
			verifAssert(g == v, "with the value of the wire")
		}
	}
	resp := fctx.ResponseHeaders()
	verifAssert(resp[opIDHeader] == "77", "the request's op id is echoed in the response headers")
	_, hasCid := wireMap[cidHeader]
	_, respCid := resp[cidHeader]
	verifAssert(hasCid == respCid && (!hasCid || resp[cidHeader] == "cid-x"), "the correlation id is echoed iff the wire had one")

	// the same context written again after it was changed: the bytes are the encoding of the CURRENT headers
	src := NewFContext("again").(*FContextImpl)
	for k, v := range user {
		src.AddRequestHeader(k, v)
	}
	w1 := thrift.NewTMemoryBuffer()
	verifAssert(pf.GetProtocol(w1).WriteRequestHeader(src) == nil, "first write")
	switch verifChoice(3) {
	case 0:
		src.SetTimeout(30 * time.Second)
		verifReach("timeout-changed-between-writes")
	case 1:
		src.AddRequestHeader("late", "x")
	}
	w2 := thrift.NewTMemoryBuffer()
	verifAssert(pf.GetProtocol(w2).WriteRequestHeader(src) == nil, "second write")
	dec, derr := readHeader(&thrift.TMemoryBuffer{Buffer: bytes.NewBuffer(w2.Bytes())})
	verifAssert(derr == nil && verifMapEq(dec, src.RequestHeaders()) && verifMapEq(src.RequestHeaders(), dec), "a context written a second time is encoded as it is now")

	// response direction: the block is applied to a fresh context verbatim
	target := NewFContext("mine").(*FContextImpl)
	target.requestHeaders[opIDHeader] = "77"
	before := target.RequestHeaders()
	err = pf.GetProtocol(&thrift.TMemoryBuffer{Buffer: bytes.NewBuffer(wire)}).ReadResponseHeader(target)
	verifAssert(err == nil, "response header block accepted")
	rh := target.ResponseHeaders()
	for k, v := range wireMap {
		if k == opIDHeader {
			continue
		}
		verifAssert(rh[k] == v, "every wire header is a response header with its value")
	}
	verifAssert(verifMapEq(before, target.RequestHeaders()), "reading a response leaves the request headers untouched")
	verifReach("end")
}

func VerifC04_AddHeaders() {
	n := verifParam()
	impl, m := verifHeaderMap(n, verifBound())
	extraImpl, extra := verifHeaderMap(1, verifBound())
	// payload as carried in complete frames: BE32 length + bytes
	body := verifBytes(verifChoice(3), 0)
	payload := append([]byte{0, 0, 0, byte(len(body))}, body...)

	wire := writeMarshaler.marshalHeaders(impl)
	inner := append(append([]byte{}, wire...), payload...)
	frame := make([]byte, 4, 4+len(inner))
	binary.BigEndian.PutUint32(frame, uint32(len(inner)))
	frame = append(frame, inner...)

	c, err := unmarshalFrame(frame)
	verifAssert(err == nil, "unmarshalFrame accepts a canonical frame")
	verifAssert(verifMapEq(c.headers, m) && verifMapEq(m, c.headers), "unmarshalFrame returns the identical map")
	verifAssert(bytes.Equal(c.payload, body), "unmarshalFrame returns the payload bytes")

	nf, err := addHeadersToFrame(frame, extraImpl)
	verifAssert(err == nil, "addHeadersToFrame accepts a canonical frame")
	verifAssert(len(nf) >= 4 && int(binary.BigEndian.Uint32(nf)) == len(nf)-4, "new frame size prefix is exact")
	want := make(map[string]string)
	for k, v := range m {
		want[k] = v
	}
	for k, v := range extra {
		want[k] = v
	}
	names, values, end, ok := verifRefParse(nf[4:])
	verifAssert(ok, "new frame has a well-formed header block")
	verifAssert(len(names) == len(want), "new frame has old ∪ extra headers")
	for i := range names {
		v, present := want[names[i]]
		verifAssert(present && v == values[i], "new frame pair is an entry of old ∪ extra (extra wins)")
	}
	verifAssert(bytes.Equal(nf[4+end:], payload), "payload preserved after the new header block")
	verifReach("end")
}

func init() {
	verifHarnesses["VerifC04_LargeBlock"] = VerifC04_LargeBlock
}

// verifOpaqueReader is a stream whose RemainingBytes() says whatever its implementation says: a socket reports
// "unknown" (MaxUint64), a buffered or compressing transport reports the bytes of its UNDERLYING transport (fewer
// than it can still deliver). The value is arbitrary here; what the reader returns must not depend on it.
type verifOpaqueReader struct {
	data []byte
	rem  uint64
}

func (r *verifOpaqueReader) Read(p []byte) (int, error) {
	if len(r.data) == 0 {
		return 0, io.EOF
	}
	n := copy(p, r.data)
	r.data = r.data[n:]
	return n, nil
}
func (r *verifOpaqueReader) RemainingBytes() uint64 { return r.rem }

// "any content": a header block of a size around the usual buffer thresholds (a long token, a serialized
// trace context): one header whose value is a long filler with a symbolic tail, next to a small one.
// Written by the real writer, read back from a stream (whatever RemainingBytes reports) and from a frame.
func VerifC04_LargeBlock() {
	size := []int{250, 1010, 1030, 4090, 4100, 40000}[verifParam()]
	tail := verifStr(2)
	big := make([]byte, size)
	for i := range big {
		big[i] = 'x'
	}
	m := map[string]string{"big": string(big) + tail, "k": verifStr(1)}
	payload := verifBytes(verifChoice(2), 0)
	out := thrift.NewTMemoryBuffer()
	fp := &FProtocol{TProtocol: thrift.NewTBinaryProtocolFactoryDefault().GetProtocol(out)}
	verifAssert(fp.writeHeader(m) == nil, "writeHeader succeeds")
	wire := out.Bytes()
	verifAssert(len(wire) == 5+8+3+size+2+8+1+len(m["k"]), "layout: total = 5 + sum(8+|k|+|v|)")
	verifAssert(wire[0] == 0 && int(binary.BigEndian.Uint32(wire[1:5])) == len(wire)-5, "layout: version byte and big-endian total")
	stream := append(append([]byte{}, wire...), payload...)

	rd := &verifOpaqueReader{data: append([]byte{}, stream...), rem: verifNondetU64()}
	got, err := readHeader(rd)
	verifAssert(err == nil, "stream reader accepts a large header block whatever the transport reports as remaining")
	verifAssert(len(got) == 2 && got["big"] == m["big"] && got["k"] == m["k"], "stream reader returns the identical map")
	verifAssert(bytes.Equal(rd.data, payload), "stream reader leaves exactly the payload unread")

	got2, err := getHeadersFromFrame(stream)
	verifAssert(err == nil, "frame reader accepts a large header block")
	verifAssert(len(got2) == 2 && got2["big"] == m["big"] && got2["k"] == m["k"], "frame reader returns the identical map")
	verifReach("end")
}
