package frugal

import (
	"bytes"
	"strconv"
	"time"

	"github.com/apache/thrift/lib/go/thrift"
	"github.com/nats-io/nats.go"
)

// C01: under multiplexing every RPC gets exactly its own response.

func init() {
	verifHarnesses["VerifC01_RegistryStep"] = VerifC01_RegistryStep
	verifHarnesses["VerifC01_AdapterCorrelation"] = VerifC01_AdapterCorrelation
}

func verifCtxWithOpID(op string) FContext {
	return &FContextImpl{
		requestHeaders:      map[string]string{opIDHeader: op, cidHeader: "c"},
		responseHeaders:     make(map[string]string),
		ephemeralProperties: make(map[interface{}]interface{}),
	}
}

// (a) one step of the registry from an arbitrary state: the registry already
// holds any number of other requests (unknown map), the op id is an arbitrary
// string, and a probe key checks the frame condition.
func VerifC01_RegistryStep() {
	filler := []byte{0xEE}
	r := &fRegistryImpl{channels: make(map[uint64]chan []byte)}
	verifHavocChanMap(r.channels, filler)
	op := verifStr(verifChoice(verifBound() + 1)) // arbitrary bytes, possibly not a number
	ctx := verifCtxWithOpID(op)
	k, kerr := getOpID(ctx)
	j := verifNondetU64() // probe: some other key
	verifAssume(j != k)
	probeBefore, probeOK := r.channels[j]
	probeLen := verifChanLen(probeBefore)

	switch verifParam() {
	case 0: // Register
		own, had := r.channels[k]
		ch := make(chan []byte, 1)
		err := r.Register(ctx, ch)
		now, ok := r.channels[k]
		if kerr == nil && had {
			verifReach("duplicate")
			verifAssert(err != nil, "registering an in-flight op id is refused")
			verifAssert(ok && now == own, "the in-flight registration is not replaced")
		} else if kerr == nil {
			verifReach("registered")
			verifAssert(err == nil && ok && now == ch, "the caller's channel is stored under its op id")
		}
	case 1: // Unregister
		r.Unregister(ctx)
		_, ok := r.channels[k]
		if kerr == nil {
			verifReach("unregistered")
			verifAssert(!ok, "the caller's registration is removed")
		}
	case 2: // Execute of a well-formed response frame for op id `op`
		own, had := r.channels[k]
		before := verifChanLen(own)
		frame := verifResponseFrame(op, []byte{0x42})[4:]
		err := r.Execute(frame)
		now, ok := r.channels[k]
		verifAssert(ok == had && (!had || now == own), "dispatch does not change the registration")
		if kerr == nil && had && before == 0 {
			verifReach("delivered")
			verifAssert(err == nil && verifChanLen(own) == 1, "exactly one frame is delivered to the registered channel")
			got := <-own
			verifAssert(bytes.Equal(got, frame), "the delivered frame is the received frame")
		}
		if kerr == nil && had && before == 1 {
			verifReach("slot-full")
			verifAssert(verifChanLen(own) == 1, "a duplicate does not grow the slot")
			got := <-own
			verifAssert(bytes.Equal(got, filler), "the earlier frame is not overwritten")
		}
		if kerr == nil && !had {
			verifReach("unknown")
			verifAssert(err == nil, "a frame for an unknown op id is discarded without error")
		}
		if kerr != nil {
			verifReach("not-a-number")
			verifAssert(err != nil, "a frame whose op id is not a number is rejected")
		}
	}
	probeAfter, probeOK2 := r.channels[j]
	verifAssert(probeOK == probeOK2 && probeBefore == probeAfter && verifChanLen(probeAfter) == probeLen,
		"registrations and channels of other op ids are untouched")
	verifReach("end")
}

// (b) two concurrent callers on one adapter transport, an adversarial peer that
// answers in any order, any multiplicity, with unknown ids and arbitrarily late.
func VerifC01_AdapterCorrelation() {
	pipe := newVerifPipe()
	pipe.coalesce = verifChoice(2) == 1 // responses arrive one per read, or back to back in one segment
	ft := NewAdapterTransport(pipe).(*fAdapterTransport)
	verifAssert(ft.Open() == nil, "open")
	c1, c2 := NewFContext("a"), NewFContext("b")
	if verifChoice(2) == 1 {
		// one clone per outbound call of a context implemented outside the package
		// (a decorator that only implements FContext), as the documentation recommends
		base := verifForeignCtx{NewFContext("base")}
		c1, c2 = Clone(base), Clone(base)
		verifReach("foreign-clones")
	}
	if verifChoice(2) == 0 {
		c1.SetTimeout(0) // no deadline
	} else {
		c1.SetTimeout(5 * time.Millisecond)
		verifReach("with-deadline")
	}
	c2.SetTimeout(0)
	d1, d2 := make(chan verifResult, 1), make(chan verifResult, 1)
	go verifRequest(ft, c1, d1)
	go verifRequest(ft, c2, d2)
	<-pipe.sent
	<-pipe.sent

	k := verifParam()
	sent1, sent2 := 0, 0
	for i := 0; i < k; i++ {
		switch verifChoice(3) {
		case 0:
			pipe.feed(verifResponseFrame(verifOpID(c1), []byte{1}))
			sent1++
		case 1:
			pipe.feed(verifResponseFrame(verifOpID(c2), []byte{2}))
			sent2++
		case 2:
			pipe.feed(verifResponseFrame("424242", []byte{9}))
		}
	}
	// make sure both can finish
	pipe.feed(verifResponseFrame(verifOpID(c2), []byte{2}))
	pipe.feed(verifResponseFrame(verifOpID(c1), []byte{1}))
	r1, r2 := <-d1, <-d2
	if r1.err == nil {
		verifAssert(r1.valid && r1.opid == verifOpID(c1) && len(r1.data) == 1 && r1.data[0] == 1, "caller 1 completes only with its own response")
	} else {
		verifReach("timed-out")
		te, ok := r1.err.(thrift.TTransportException)
		verifAssert(ok && te.TypeId() == TRANSPORT_EXCEPTION_TIMED_OUT, "the only failure of caller 1 is its own timeout")
	}
	verifAssert(r2.err == nil && r2.valid && r2.opid == verifOpID(c2) && len(r2.data) == 1 && r2.data[0] == 2, "caller 2 completes with its own response whatever else arrived")
	reg := ft.registry.(*fRegistryImpl)
	reg.mu.RLock()
	left := len(reg.channels)
	reg.mu.RUnlock()
	verifAssert(left == 0, "no registration is left behind")
	verifReach("end")
}

func init() {
	verifHarnesses["VerifC01_NatsRouting"] = VerifC01_NatsRouting
	verifHarnesses["VerifC01_SequentialReuse"] = VerifC01_SequentialReuse
}

// (c) NATS client transport: a message is routed by the op id INSIDE the frame
// (or, for a 503 status message, by the reply-subject suffix), whatever reply
// subject it arrives on. One step from an arbitrary registry.
func VerifC01_NatsRouting() {
	filler := []byte{0xEE}
	tr := &fNatsTransport{fBaseTransport: newFBaseTransport(0), inbox: "in"}
	reg := tr.registry.(*fRegistryImpl)
	verifHavocChanMap(reg.channels, filler)
	frameOp := verifStr(1 + verifChoice(2))   // op id inside the frame
	subjectOp := verifStr(1 + verifChoice(2)) // suffix of the subject the message arrives on
	fk, ferr := getOpID(verifCtxWithOpID(frameOp))
	sk, serr := getOpID(verifCtxWithOpID(subjectOp))
	var fch, sch chan []byte
	var fhad, shad bool
	if ferr == nil {
		fch, fhad = reg.channels[fk]
	}
	if serr == nil {
		sch, shad = reg.channels[sk]
	}
	fbefore, sbefore := verifChanLen(fch), verifChanLen(sch)
	msg := &nats.Msg{Subject: "in." + subjectOp}
	status503 := verifParam() == 1
	if status503 {
		msg.Header = nats.Header{"Status": []string{"503"}}
	} else {
		msg.Data = verifResponseFrame(frameOp, []byte{7})
	}
	tr.handler(msg)
	if status503 {
		if serr == nil && shad && sbefore == 0 {
			verifReach("503-delivered")
			verifAssert(verifChanLen(sch) == 1, "a 503 for a reply subject reaches the request that used that subject")
		}
	} else {
		if ferr == nil && fhad && fbefore == 0 {
			verifReach("frame-delivered")
			verifAssert(verifChanLen(fch) == 1, "the frame reaches the request whose op id it carries")
		}
		if serr == nil && shad && (ferr != nil || sk != fk) {
			verifReach("foreign-subject")
			verifAssert(verifChanLen(sch) == sbefore, "the request that merely owns the reply subject receives nothing")
		}
	}
	verifReach("end")
}

// (d) requests issued one after the other on one transport, with duplicates of
// the earlier response arriving at any time: the later request completes only
// with its own frame (nothing of an earlier request may survive in whatever the
// transport reuses).
func VerifC01_SequentialReuse() {
	pipe := newVerifPipe()
	ft := NewAdapterTransport(pipe)
	verifAssert(ft.Open() == nil, "open")
	ca := NewFContext("a")
	ca.SetTimeout(0)
	da := make(chan verifResult, 1)
	go verifRequest(ft, ca, da)
	<-pipe.sent
	dups := 1 + verifParam()
	for i := 0; i < dups; i++ {
		pipe.feed(verifResponseFrame(verifOpID(ca), []byte{1}))
	}
	ra := <-da
	verifAssert(ra.err == nil && ra.opid == verifOpID(ca), "request A completes with its own frame")
	verifYield("between-requests")
	cb := NewFContext("b")
	cb.SetTimeout(0)
	db := make(chan verifResult, 1)
	go verifRequest(ft, cb, db)
	<-pipe.sent
	pipe.feed(verifResponseFrame(verifOpID(cb), []byte{2}))
	rb := <-db
	verifAssert(rb.err == nil && rb.opid == verifOpID(cb) && len(rb.data) == 1 && rb.data[0] == 2, "request B completes only with its own frame")
	verifReach("end")
}

func init() {
	verifHarnesses["VerifC01_OpIDOverflow"] = VerifC01_OpIDOverflow
}

// An op id on the wire is a decimal string: one that does not fit in 64 bits (here
// 2^64 + N and 10 * 2^64 + N for a live op id N, and any 20..21-digit string whose
// last digits are symbolic) is nobody's op id and must not be delivered to N.
func VerifC01_OpIDOverflow() {
	reg := newFRegistry().(*fRegistryImpl)
	c := NewFContext("c")
	n, _ := getOpID(c)
	verifAssume(n < 300)
	ch := make(chan []byte, 1)
	verifAssert(reg.Register(c, ch) == nil, "register")
	var op string
	switch verifParam() {
	case 0: // 2^64 + n  (2^64 = 18446744073709551616)
		op = "18446744073709551" + strconv.Itoa(616+int(n))
	case 1: // 10 * 2^64 + n
		op = "184467440737095516" + strconv.Itoa(160+int(n))
	case 2: // a 20-digit number above 2^64 whose last two digits are arbitrary
		d1, d2 := verifNondetU8(), verifNondetU8()
		verifAssume(d1 >= '0' && d1 <= '9' && d2 >= '0' && d2 <= '9')
		op = "184467440737095517" + string([]byte{d1, d2})
	}
	err := reg.Execute(verifResponseFrame(op, []byte{7})[4:])
	_ = err
	verifAssert(len(ch) == 0, "a frame whose op id does not fit in 64 bits is not delivered to the request whose id it wraps to")
	reg.Unregister(c)
	verifReach("end")
}
