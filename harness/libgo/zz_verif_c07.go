package frugal

import (
	"bytes"
	"context"
	"errors"

	"github.com/apache/thrift/lib/go/thrift"
	"github.com/go-stomp/stomp"
	"github.com/nats-io/nats.go"
)

// C07: pub/sub delivers each message once, intact, and isolates bad messages.

func init() {
	verifHarnesses["VerifC07_NatsPubSub"] = VerifC07_NatsPubSub
	verifHarnesses["VerifC07_StompSub"] = VerifC07_StompSub
}

type verifDelivery struct {
	body string
	hdr  string
	cid  string
}

// verifRecv is the subscriber callback in the shape the generator emits:
// header, message begin, op check, payload, handler.
func verifRecv(pf *FProtocolFactory, op string, handler func(FContext, *verifMsg) error) FAsyncCallback {
	return func(transport thrift.TTransport) error {
		iprot := pf.GetProtocol(transport)
		ctx, err := iprot.ReadRequestHeader()
		if err != nil {
			return err
		}
		name, _, _, err := iprot.ReadMessageBegin(context.Background())
		if err != nil {
			return err
		}
		if name != op {
			iprot.Skip(context.Background(), thrift.STRUCT)
			iprot.ReadMessageEnd(context.Background())
			return thrift.NewTApplicationException(APPLICATION_EXCEPTION_UNKNOWN_METHOD, "Unknown function"+name)
		}
		req := &verifMsg{}
		if err := req.Read(context.Background(), iprot); err != nil {
			return err
		}
		iprot.ReadMessageEnd(context.Background())
		return handler(ctx, req)
	}
}

// the message kinds a peer can put on the wire
const (
	verifKindValid = iota
	verifKindShort
	verifKindBadHeader
	verifKindOtherOp
	verifKindForeignTopic
	verifKindHandlerFails
	verifKinds
)

func verifScopeFrame(pf *FProtocolFactory, op string, body, hdr string) []byte {
	c := FStandardClient{protocolFactory: pf}
	fctx := NewFContext("cid-" + body)
	fctx.AddRequestHeader("h", hdr)
	out, err := c.prepareMessage(context.Background(), fctx, op, &verifMsg{a: body, b: "y", c: "z"}, thrift.CALL)
	verifAssert(err == nil, "publisher can encode the message")
	return out
}

func VerifC07_NatsPubSub() {
	b := newVerifBroker()
	// the publisher is another process: its messages are routed to the subscriber only once the server knows the SUB
	b.lazySub, b.foreignPublisher = true, true
	pf := NewFProtocolFactory(thrift.NewTBinaryProtocolFactoryDefault())
	conn := &nats.Conn{}
	var log []verifDelivery
	handler := func(ctx FContext, m *verifMsg) error {
		h, _ := ctx.RequestHeader("h")
		log = append(log, verifDelivery{m.a, h, ctx.CorrelationID()})
		return nil
	}
	sub := NewFNatsSubscriberTransportFactory(conn).GetTransport()
	verifAssert(sub.Subscribe("topic", verifRecv(pf, "op", handler)) == nil, "subscribe")
	pub := NewFNatsPublisherTransportFactory(conn).GetTransport()
	verifAssert(pub.Open() == nil, "publisher open")
	client := &FStandardClient{publisher: pub, protocolFactory: pf, limit: pub.GetPublishSizeLimit()}

	n := verifParam()
	var want []verifDelivery
	for i := 0; i < n; i++ {
		body := verifStr(verifBound())
		hdr := verifStr(1)
		switch verifChoice(verifKinds - 1) { // (the handler never fails in this harness)
		case verifKindValid:
			fctx := NewFContext("cid")
			fctx.AddRequestHeader("h", hdr)
			verifAssert(client.Publish(fctx, "op", "topic", &verifMsg{a: body, b: "y", c: "z"}) == nil, "publish")
			want = append(want, verifDelivery{body, hdr, "cid"})
			verifReach("valid")
		case verifKindShort:
			b.inject("frugal.topic", "", verifBytes(verifChoice(4), 0))
			verifReach("short-frame")
		case verifKindBadHeader:
			b.inject("frugal.topic", "", []byte{0, 0, 0, 6, 0, 0xff, 0xff, 0xff, 0xff, 1})
			verifReach("bad-header")
		case verifKindOtherOp:
			fctx := NewFContext("cid")
			verifAssert(client.Publish(fctx, "other", "topic", &verifMsg{a: body}) == nil, "publish other op")
			verifReach("other-op")
		case verifKindForeignTopic:
			fctx := NewFContext("cid")
			verifAssert(client.Publish(fctx, "op", "elsewhere", &verifMsg{a: body}) == nil, "publish elsewhere")
			verifReach("foreign-topic")
		}
	}
	// every valid message must arrive (a lost one leaves this blocked: reported as a deadlock)
	verifBlockUntil(func() bool { return len(log) >= len(want) && b.subs[0].delivered == b.subs[0].enq })
	verifAssert(len(log) == len(want), "the handler ran exactly once per valid message of this topic and operation")
	for i := range want {
		verifAssert(log[i].body == want[i].body, "payload equal, in publish order")
		verifAssert(log[i].hdr == want[i].hdr && log[i].cid == want[i].cid, "the publisher's FContext headers arrive")
	}
	verifAssert(sub.Unsubscribe() == nil, "unsubscribe")
	before := len(log)
	fctx := NewFContext("cid")
	client.Publish(fctx, "op", "topic", &verifMsg{a: "late"})
	verifYield("after-unsubscribe")
	verifAssert(len(log) == before, "nothing published after Unsubscribe returned reaches the handler")
	verifReach("end")
}

// ---- STOMP ----

type verifStompState struct {
	sub   *stomp.Subscription
	acks  []*stomp.Message
	unsub bool
	// connection model (set by harnesses that need it): like go-stomp, ONE process loop serves both the
	// connection's bounded write channel (Ack, Send, Unsubscribe requests) and the inbound MESSAGE frames,
	// which it hands to the subscription's bounded channel with a BLOCKING send. Capacities are tiny here
	// (go-stomp: 20 / 20 / 16); the shape is the same.
	loop    bool
	writeCh chan *stomp.Message
	inbound chan *stomp.Message
}

func verifStompProcessLoop(st *verifStompState) {
	for {
		select {
		case m := <-st.writeCh:
			st.acks = append(st.acks, m)
		case m, ok := <-st.inbound:
			if !ok {
				return
			}
			st.sub.C <- m
		}
	}
}

var verifStomp *verifStompState

func verifStompSubscribe(c *stomp.Conn, dest string, ack stomp.AckMode, _ interface{}) (*stomp.Subscription, error) {
	if verifStomp.loop {
		verifStomp.sub = &stomp.Subscription{C: make(chan *stomp.Message, 1)}
		verifStomp.writeCh = make(chan *stomp.Message, 1)
		verifStomp.inbound = make(chan *stomp.Message, 16)
		go verifStompProcessLoop(verifStomp)
		return verifStomp.sub, nil
	}
	verifStomp.sub = &stomp.Subscription{C: make(chan *stomp.Message, 16)}
	return verifStomp.sub, nil
}
func verifStompAck(c *stomp.Conn, m *stomp.Message) error {
	if verifStomp.loop {
		verifStomp.writeCh <- m // blocks while the connection's write channel is full
		return nil
	}
	verifStomp.acks = append(verifStomp.acks, m)
	return nil
}
func verifStompUnsubscribe(s *stomp.Subscription, _ interface{}) error {
	if verifStomp.unsub {
		return stomp.ErrCompletedSubscription
	}
	verifStomp.unsub = true
	close(s.C)
	return nil
}

func VerifC07_StompSub() {
	verifStomp = &verifStompState{}
	pf := NewFProtocolFactory(thrift.NewTBinaryProtocolFactoryDefault())
	var log []verifDelivery
	failNext := false
	handler := func(ctx FContext, m *verifMsg) error {
		h, _ := ctx.RequestHeader("h")
		log = append(log, verifDelivery{m.a, h, ctx.CorrelationID()})
		if failNext {
			failNext = false
			return errors.New("verif: handler failed")
		}
		return nil
	}
	tr := newStompFSubscriberTransport(&stomp.Conn{}, "", false)
	verifAssert(tr.Subscribe("topic", verifRecv(pf, "op", handler)) == nil, "subscribe")
	in := verifStomp.sub.C

	n := verifParam()
	var want []verifDelivery
	var wantAck []*stomp.Message
	handled := 0
	for i := 0; i < n; i++ {
		body := verifStr(verifBound())
		switch verifChoice(5) {
		case 0:
			m := &stomp.Message{Body: verifScopeFrame(pf, "op", body, "v")}
			in <- m
			want = append(want, verifDelivery{body, "v", "cid-" + body})
			wantAck = append(wantAck, m)
			handled++
			verifReach("valid")
		case 1:
			in <- &stomp.Message{Body: verifBytes(verifChoice(4), 0)}
			verifReach("short-frame")
		case 2:
			in <- &stomp.Message{Body: []byte{0, 0, 0, 6, 0, 0xff, 0xff, 0xff, 0xff, 1}}
			verifReach("bad-header")
		case 3:
			in <- &stomp.Message{Body: verifScopeFrame(pf, "other", body, "v")}
			verifReach("other-op")
		case 4:
			// the handler fails for this one: delivered, but must not be acknowledged
			verifBlockUntil(func() bool { return len(log) == handled })
			failNext = true
			in <- &stomp.Message{Body: verifScopeFrame(pf, "op", body, "v")}
			want = append(want, verifDelivery{body, "v", "cid-" + body})
			handled++
			verifBlockUntil(func() bool { return len(log) == handled })
			verifReach("handler-fails")
		}
	}
	verifBlockUntil(func() bool { return len(log) >= len(want) && len(in) == 0 && len(verifStomp.acks) >= len(wantAck) })
	verifAssert(len(log) == len(want), "the handler ran exactly once per valid message")
	for i := range want {
		verifAssert(log[i] == want[i], "payload and headers equal, in arrival order")
	}
	verifYield("acks-settle")
	verifAssert(len(verifStomp.acks) == len(wantAck), "exactly the successfully handled messages are acknowledged")
	for _, m := range wantAck {
		found := 0
		for _, a := range verifStomp.acks {
			if a == m {
				found++
			}
		}
		verifAssert(found == 1, "each handled message is acknowledged once")
	}
	verifAssert(tr.Unsubscribe() == nil, "unsubscribe")
	verifAssert(!tr.IsSubscribed(), "not subscribed afterwards")
	// a message published after Unsubscribe returned: the broker still delivers it only if it has
	// not processed the UNSUBSCRIBE yet, i.e. if Unsubscribe returned before the broker's receipt
	before := len(log)
	if !verifStomp.unsub {
		select {
		case in <- &stomp.Message{Body: verifScopeFrame(pf, "op", "late", "v")}:
			verifReach("broker-still-subscribed")
		default:
		}
	}
	verifYield("let the subscriber run")
	verifYield("let the subscriber run")
	verifAssert(len(log) == before, "nothing published after Unsubscribe returned reaches the handler")
	_ = bytes.MinRead
	verifReach("end")
}

func init() {
	verifHarnesses["VerifC07_TwoSubscribers"] = VerifC07_TwoSubscribers
}

// Two subscribers created by ONE factory (builder-made or plain) on different
// topics: each handler sees exactly the messages of its own topic, and
// unsubscribing one of them does not affect the other.
func VerifC07_TwoSubscribers() {
	newVerifBroker()
	pf := NewFProtocolFactory(thrift.NewTBinaryProtocolFactoryDefault())
	conn := &nats.Conn{}
	var factory *FNatsSubscriberTransportFactory
	if verifParam() == 0 {
		factory = NewFNatsSubscriberFactoryBuilder(conn).WithQueueLength(uint(1 + verifChoice(2))).Build()
		verifReach("builder-made")
	} else {
		factory = NewFNatsSubscriberTransportFactory(conn)
	}
	var logA, logB []string
	subA, subB := factory.GetTransport(), factory.GetTransport()
	verifAssert(subA.Subscribe("alpha", verifRecv(pf, "op", func(ctx FContext, m *verifMsg) error { logA = append(logA, m.a); return nil })) == nil, "subscribe alpha")
	verifAssert(subB.Subscribe("beta", verifRecv(pf, "op", func(ctx FContext, m *verifMsg) error { logB = append(logB, m.a); return nil })) == nil, "subscribe beta")
	pub := NewFNatsPublisherTransportFactory(conn).GetTransport()
	client := &FStandardClient{publisher: pub, protocolFactory: pf, limit: pub.GetPublishSizeLimit()}
	n := 2 + verifChoice(2)
	wantA, wantB := 0, 0
	for i := 0; i < n; i++ {
		if verifChoice(2) == 0 {
			client.Publish(NewFContext("c"), "op", "alpha", &verifMsg{a: "a"})
			wantA++
		} else {
			client.Publish(NewFContext("c"), "op", "beta", &verifMsg{a: "b"})
			wantB++
		}
	}
	verifBlockUntil(func() bool { return len(logA)+len(logB) >= wantA+wantB })
	verifAssert(len(logA) == wantA && len(logB) == wantB, "each handler ran once per message of its own topic")
	for _, x := range logA {
		verifAssert(x == "a", "no message of another topic reaches the alpha handler")
	}
	for _, x := range logB {
		verifAssert(x == "b", "no message of another topic reaches the beta handler")
	}
	// unsubscribing alpha leaves beta working
	verifAssert(subA.Unsubscribe() == nil, "unsubscribe alpha")
	client.Publish(NewFContext("c"), "op", "beta", &verifMsg{a: "b"})
	verifBlockUntil(func() bool { return len(logB) >= wantB+1 }) // a lost message is a deadlock here
	verifAssert(len(logB) == wantB+1 && len(logA) == wantA, "the other subscriber keeps receiving after an Unsubscribe")
	verifAssert(subB.Unsubscribe() == nil, "unsubscribe beta")
	verifReach("end")
}

func init() {
	verifHarnesses["VerifC05_StompBurst"] = VerifC05_StompBurst
}

// C05 "never blocks forever ... keeps serving later well-formed messages", STOMP subscriber: a burst of n
// well-formed messages that outruns the handler, over a connection whose one process loop serves the bounded
// write channel (acknowledgements) and the inbound frames (blocking hand-over to the bounded subscription
// channel). Every message is handled and acknowledged: the subscriber must never wait for the connection in
// a way that keeps it from draining its subscription channel.
func VerifC05_StompBurst() {
	verifStomp = &verifStompState{loop: true}
	pf := NewFProtocolFactory(thrift.NewTBinaryProtocolFactoryDefault())
	handled := 0
	handler := func(ctx FContext, m *verifMsg) error {
		handled++
		return nil
	}
	tr := newStompFSubscriberTransport(&stomp.Conn{}, "", false)
	verifAssert(tr.Subscribe("topic", verifRecv(pf, "op", handler)) == nil, "subscribe")
	n := 3 + verifParam()
	for i := 0; i < n; i++ {
		verifStomp.inbound <- &stomp.Message{Body: verifScopeFrame(pf, "op", "b", "v")}
	}
	// a subscriber stuck on the connection shows as a deadlock here
	verifBlockUntil(func() bool { return handled == n && len(verifStomp.acks) == n })
	verifAssert(handled == n && len(verifStomp.acks) == n, "every message of the burst is handled and acknowledged")
	verifReach("end")
}
