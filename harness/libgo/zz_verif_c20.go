package frugal

import (
	"sync"
	"time"

	"github.com/apache/thrift/lib/go/thrift"
	"github.com/nats-io/nats.go"
)

// C20: NATS server shutdown drains: accepted requests answered, none lost or duplicated.

func init() {
	verifHarnesses["VerifC20_ShutdownDrains"] = VerifC20_ShutdownDrains
}

type verifCountProcessor struct {
	slow      bool
	mu        sync.Mutex
	processed map[byte]int
}

func (p *verifCountProcessor) Process(in, out *FProtocol) error {
	b := make([]byte, 1)
	if _, err := in.Transport().Read(b); err != nil {
		return err
	}
	p.mu.Lock()
	p.processed[b[0]]++
	p.mu.Unlock()
	verifYield("handler-running") // the handler takes an arbitrary time
	if p.slow {
		verifRealSleep(10 * time.Second) // a handler that takes 10 s (virtual time): the worker is blocked meanwhile
	}
	_, err := out.Transport().Write([]byte{b[0]})
	return err
}
func (p *verifCountProcessor) AddMiddleware(ServiceMiddleware)           {}
func (p *verifCountProcessor) Annotations() map[string]map[string]string { return nil }

func verifReplyCount(b *verifNatsBroker, subject string) int {
	n := 0
	for _, p := range b.published {
		if p.subject == subject {
			n++
		}
	}
	return n
}

func VerifC20_ShutdownDrains() {
	b := newVerifBroker()
	cfg := verifParam()
	subjects := []string{"svc"}
	if cfg >= 6 {
		// a server listening on two subjects (one NATS subscription each)
		cfg -= 6
		subjects = []string{"svc", "svc2"}
		verifReach("two-subjects")
	}
	workers, queue := uint(1+cfg/3), uint(cfg%3)
	proc := &verifCountProcessor{processed: map[byte]int{}, slow: verifChoice(2) == 1}
	srv := NewFNatsServerBuilder(&nats.Conn{}, proc, NewFProtocolFactory(thrift.NewTBinaryProtocolFactoryDefault()), subjects).
		WithWorkerCount(workers).WithQueueLength(queue).Build()
	served := make(chan error, 1)
	go func() { served <- srv.Serve() }()
	// Stop may be called at ANY time after Serve was started - also before the Serve goroutine has executed its
	// first statement (go srv.Serve() directly followed by Stop, a signal handler racing start-up): the quit
	// channel is a rendezvous, so the stop request must not be lost
	early := verifChoice(2) == 1
	before := 0
	if early {
		verifReach("stop-races-startup")
	} else {
		verifBlockUntil(func() bool { return len(b.subs) == len(subjects) })
		before = 1 + verifChoice(verifBound())
	}
	replies := []string{"r0", "r1", "r2", "r3"}
	for i := 0; i < before; i++ {
		b.inject(subjects[i%len(subjects)], replies[i], []byte{0, 0, 0, 1, byte(i)})
	}
	stopped := make(chan error, 1)
	go func() { stopped <- srv.Stop() }()
	racing := verifChoice(2) == 1
	if racing {
		// arrives while Stop is in progress: either outcome is fine, but never twice
		b.inject("svc", "rx", []byte{0, 0, 0, 1, 100})
		verifReach("racing-request")
	}
	verifAssert(<-stopped == nil, "Stop returns without error") // a Stop that never returns is a deadlock
	b.inject("svc", "late", []byte{0, 0, 0, 1, 200})
	verifAssert(<-served == nil, "Serve returns") // likewise

	for i := 0; i < before; i++ {
		verifAssert(proc.processed[byte(i)] == 1, "a request received before Stop is processed exactly once")
		verifAssert(verifReplyCount(b, replies[i]) == 1, "its reply is published before Serve returns")
	}
	verifAssert(proc.processed[200] == 0 && verifReplyCount(b, "late") == 0, "a request arriving after Stop returned is not processed")
	verifAssert(proc.processed[100] <= 1 && verifReplyCount(b, "rx") == proc.processed[100], "a racing request is processed at most once and answered iff processed")
	if before > int(queue)+int(workers) {
		verifReach("burst-exceeds-queue")
	}
	verifReach("end")
}
