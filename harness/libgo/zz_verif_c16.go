package frugal

import (
	"bytes"
	"reflect"

	"github.com/apache/thrift/lib/go/thrift"
)

// C16: middleware intercepts every call exactly once, in the declared order.

func init() {
	verifHarnesses["VerifC16_Nesting"] = VerifC16_Nesting
}

type verifMwSpec struct {
	id         int
	rewriteArg bool
	rewriteRes bool
	setErr     bool
	delta      string
}

func verifMiddleware(s verifMwSpec, trace *[]int) ServiceMiddleware {
	return func(next InvocationHandler) InvocationHandler {
		return func(service reflect.Value, method reflect.Method, args Arguments) Results {
			*trace = append(*trace, s.id)
			if s.rewriteArg {
				args[1] = args[1].(string) + s.delta
			}
			res := next(service, method, args)
			if s.rewriteRes && res[0] != nil {
				res[0] = res[0].(string) + s.delta
			}
			*trace = append(*trace, -s.id)
			return res
		}
	}
}

// The wiring below is what every generated constructor does:
//
//	middleware = append(middleware, provider.GetMiddleware()...)
//	NewMethod(target, target.method, name, middleware)
func VerifC16_Nesting() {
	na, nb := verifParam()/4, verifParam()%4
	var trace []int
	var ctor, prov []ServiceMiddleware
	var specs []verifMwSpec
	mk := func(id int) verifMwSpec {
		return verifMwSpec{id: id, rewriteArg: verifNondetBool(), rewriteRes: verifNondetBool(), delta: verifStr(1)}
	}
	var ctorSpecs, provSpecs []verifMwSpec
	for i := 0; i < na; i++ {
		s := mk(1 + i)
		ctorSpecs = append(ctorSpecs, s)
		ctor = append(ctor, verifMiddleware(s, &trace))
	}
	for i := 0; i < nb; i++ {
		s := mk(101 + i)
		provSpecs = append(provSpecs, s)
		prov = append(prov, verifMiddleware(s, &trace))
	}
	_ = specs
	provider := NewFServiceProvider(nil, nil, prov...)
	// spare capacity in the caller's variadic slice must not matter
	spare := make([]ServiceMiddleware, len(ctor), len(ctor)+verifChoice(2)*2)
	copy(spare, ctor)
	middleware := append(spare, provider.GetMiddleware()...)

	h := &verifPingHandler{outcome: verifOutcome(verifChoice(2)*verifOutUndeclared, 0)}
	m := NewMethod(h, h.Ping, "Ping", middleware)
	extra := verifChoice(2) == 1
	var extraSpec verifMwSpec
	if extra {
		extraSpec = mk(1000)
		m.AddMiddleware(verifMiddleware(extraSpec, &trace))
		verifReach("added-later")
	}
	arg := verifStr(1)
	res := m.Invoke([]interface{}{NewFContext("c"), arg})

	// expected order, outermost first: [added later] provider[nb-1..0] ctor[na-1..0]
	var order []verifMwSpec
	if extra {
		order = append(order, extraSpec)
	}
	for i := nb - 1; i >= 0; i-- {
		order = append(order, provSpecs[i])
	}
	for i := na - 1; i >= 0; i-- {
		order = append(order, ctorSpecs[i])
	}
	verifAssert(h.calls == 1, "the target is invoked exactly once")
	verifAssert(len(trace) == 2*len(order), "every middleware is entered and left exactly once")
	wantArg := arg
	for i, s := range order {
		verifAssert(trace[i] == s.id, "entry order: later-listed wraps earlier, provider wraps constructor")
		verifAssert(trace[len(trace)-1-i] == -s.id, "exit order is the reverse of the entry order")
		if s.rewriteArg {
			wantArg += s.delta
		}
	}
	verifAssert(len(h.args) == 1 && h.args[0] == wantArg, "the target sees the arguments as rewritten by every middleware, outermost first")
	if res.Error() == nil {
		wantRes := "re:" + wantArg
		for i := len(order) - 1; i >= 0; i-- {
			if order[i].rewriteRes {
				wantRes += order[i].delta
			}
		}
		verifAssert(len(res) == 2 && res[0].(string) == wantRes, "the caller sees the result as rewritten by every middleware, innermost first")
		verifReach("value")
	} else {
		verifAssert(res.Error().Error() == "boom", "the caller sees the target's error")
		verifReach("error")
	}
	verifReach("end")
}

func init() {
	verifHarnesses["VerifC16_SharedSlice"] = VerifC16_SharedSlice
	verifHarnesses["VerifC16_ErrorOnly"] = VerifC16_ErrorOnly
}

// Two methods built from the SAME variadic slice (with or without spare
// capacity) and different middleware added afterwards: each call passes through
// exactly its own chain.
func VerifC16_SharedSlice() {
	var trace []int
	spare := verifChoice(3)
	shared := make([]ServiceMiddleware, 1, 1+spare)
	shared[0] = verifMiddleware(verifMwSpec{id: 1}, &trace)
	h1, h2 := &verifPingHandler{outcome: verifOutcome(verifOutValue, 0)}, &verifPingHandler{outcome: verifOutcome(verifOutValue, 0)}
	provA := NewFServiceProvider(nil, nil, verifMiddleware(verifMwSpec{id: 101}, &trace))
	provB := NewFServiceProvider(nil, nil, verifMiddleware(verifMwSpec{id: 201}, &trace))
	withProviders := verifChoice(2) == 1
	// what two generated constructors, called one after the other, do with the caller's slice
	mwA := shared
	if withProviders {
		mwA = append(shared, provA.GetMiddleware()...)
		verifReach("with-providers")
	}
	m1 := NewMethod(h1, h1.Ping, "Ping", mwA)
	mwB := shared
	if withProviders {
		mwB = append(shared, provB.GetMiddleware()...)
	}
	m2 := NewMethod(h2, h2.Ping, "Ping", mwB)
	later := verifChoice(2) == 1
	if later {
		m1.AddMiddleware(verifMiddleware(verifMwSpec{id: 11}, &trace))
		m2.AddMiddleware(verifMiddleware(verifMwSpec{id: 22}, &trace))
		verifReach("added-later")
	}
	check := func(m *Method, h *verifPingHandler, own, prov int) {
		trace = nil
		res := m.Invoke([]interface{}{NewFContext("c"), "x"})
		verifAssert(res.Error() == nil && h.calls == 1, "the target is invoked exactly once")
		var want []int
		if later {
			want = append(want, own)
		}
		if withProviders {
			want = append(want, prov)
		}
		want = append(want, 1)
		verifAssert(len(trace) == 2*len(want), "each call passes through exactly its own middleware")
		for i, id := range want {
			verifAssert(trace[i] == id && trace[len(trace)-1-i] == -id, "in the declared order, untouched by the other method's middleware")
		}
	}
	check(m1, h1, 11, 101)
	check(m2, h2, 22, 201)
	verifReach("end")
}

// Methods whose only result is an error (void / oneway / publish / subscriber
// callbacks): a middleware that rewrites the error of one call must not leak
// into any other call.
func VerifC16_ErrorOnly() {
	var trace []int
	// the error a middleware sets / a target returns may be of ANY Go error type: a pointer (errors.New, generated
	// exceptions), a struct VALUE (context.DeadlineExceeded is one: what a timeout middleware passes on from
	// ctx.Err()), or an integer / string based type at its zero value (syscall.Errno-like)
	var denied error
	switch verifChoice(3) {
	case 0:
		denied = verifErr("denied")
	case 1:
		denied = verifValErr{}
		verifReach("struct-value-error")
	case 2:
		denied = verifCodeErr(0)
		verifReach("zero-code-error")
	}
	setErr := func(next InvocationHandler) InvocationHandler {
		return func(service reflect.Value, method reflect.Method, args Arguments) Results {
			res := next(service, method, args)
			res.SetError(denied)
			return res
		}
	}
	h := &verifPingHandler{outcome: verifOutcome(verifOutValue, 0)}
	n := 1 + verifChoice(2)
	var mws []ServiceMiddleware
	for i := 0; i < n-1; i++ {
		mws = append(mws, verifMiddleware(verifMwSpec{id: 1 + i}, &trace))
	}
	mws = append(mws, setErr)
	rewriting := NewMethod(h, h.Fire, "Fire", mws)
	plain := NewMethod(h, h.Fire, "Fire", nil)
	observed := NewMethod(h, h.Fire, "Fire", []ServiceMiddleware{verifMiddleware(verifMwSpec{id: 9}, &trace)})
	order := verifChoice(2)
	if order == 0 {
		r0 := plain.Invoke([]interface{}{NewFContext("c"), "a"})
		verifAssert(len(r0) == 1 && r0.Error() == nil, "a successful error-only call reports no error")
	}
	r1 := rewriting.Invoke([]interface{}{NewFContext("c"), "a"})
	verifAssert(r1.Error() == denied, "the caller sees the error the middleware set")
	r2 := plain.Invoke([]interface{}{NewFContext("c"), "b"})
	verifAssert(len(r2) == 1 && r2.Error() == nil, "a later successful call on another method reports no error")
	r3 := observed.Invoke([]interface{}{NewFContext("c"), "c"})
	verifAssert(len(r3) == 1 && r3.Error() == nil, "also through an observing middleware")
	verifAssert(h.calls == 3+1-order, "every call reached the target once")
	// the same error returned by the TARGET: an observing middleware and the caller see it
	hf := &verifPingHandler{outcome: func(string) (string, error) { return "", denied }}
	var sawErr error
	watch := func(next InvocationHandler) InvocationHandler {
		return func(service reflect.Value, method reflect.Method, args Arguments) Results {
			res := next(service, method, args)
			sawErr = res.Error()
			return res
		}
	}
	r4 := NewMethod(hf, hf.Ping, "Ping", []ServiceMiddleware{watch}).Invoke([]interface{}{NewFContext("c"), "d"})
	verifAssert(sawErr == denied, "a middleware sees the error the target returned")
	verifAssert(len(r4) == 2 && r4.Error() == denied, "the caller sees the error the target returned")
	verifReach("end")
}

type verifValErr struct{}

func (verifValErr) Error() string { return "deadline exceeded" }

type verifCodeErr int

func (e verifCodeErr) Error() string { return "errno" }

type verifErrT struct{ s string }

func (e *verifErrT) Error() string { return e.s }
func verifErr(s string) error      { return &verifErrT{s} }

func init() {
	verifHarnesses["VerifC16_ProcessorAddMiddleware"] = VerifC16_ProcessorAddMiddleware
}

// Middleware attached to a processor (constructor list, then AddMiddleware one or two
// times with closures made by the same constructor function, as real middleware
// factories do): every request passes through each exactly once, later-added outermost.
func VerifC16_ProcessorAddMiddleware() {
	var trace []int
	h := &verifPingHandler{outcome: verifOutcome(verifOutValue, 0)}
	nc, nadd := verifChoice(3), 1+verifChoice(2)
	var ctor []ServiceMiddleware
	var want []int
	for i := 0; i < nc; i++ {
		ctor = append(ctor, verifMiddleware(verifMwSpec{id: 1 + i}, &trace))
	}
	proc := verifPingProcessor(h, ctor...)
	for i := 0; i < nadd; i++ {
		proc.AddMiddleware(verifMiddleware(verifMwSpec{id: 101 + i}, &trace))
	}
	for i := nadd - 1; i >= 0; i-- {
		want = append(want, 101+i)
	}
	for i := nc - 1; i >= 0; i-- {
		want = append(want, 1+i)
	}
	pf := NewFProtocolFactory(thrift.NewTBinaryProtocolFactoryDefault())
	fctx := NewFContext("c")
	out := NewTMemoryOutputBuffer(0)
	err := proc.Process(pf.GetProtocol(&thrift.TMemoryBuffer{Buffer: bytes.NewBuffer(verifRequestFrame(fctx, verifReqKnown, "a"))}), pf.GetProtocol(out))
	verifAssert(err == nil && h.calls == 1, "the request is processed")
	verifAssert(len(trace) == 2*len(want), "every middleware attached to the processor runs exactly once per request")
	for i, id := range want {
		verifAssert(trace[i] == id && trace[len(trace)-1-i] == -id, "nested in the fixed order: later-added outermost, then the constructor list from last to first")
	}
	if nadd == 2 {
		verifReach("two-added")
	}
	verifReach("end")
}
