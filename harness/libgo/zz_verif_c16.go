package frugal

import (
	"reflect"
)

// C16: middleware intercepts every call exactly once, in the declared order.

func init() {
	verifHarnesses["VerifC16_Nesting"] = VerifC16_Nesting
}

type verifMwSpec struct {
	id         int
	rewriteArg bool
	rewriteRes bool
	setErr     bool
	delta      string
}

func verifMiddleware(s verifMwSpec, trace *[]int) ServiceMiddleware {
	return func(next InvocationHandler) InvocationHandler {
		return func(service reflect.Value, method reflect.Method, args Arguments) Results {
			*trace = append(*trace, s.id)
			if s.rewriteArg {
				args[1] = args[1].(string) + s.delta
			}
			res := next(service, method, args)
			if s.rewriteRes && res[0] != nil {
				res[0] = res[0].(string) + s.delta
			}
			*trace = append(*trace, -s.id)
			return res
		}
	}
}

// The wiring below is what every generated constructor does:
//   middleware = append(middleware, provider.GetMiddleware()...)
//   NewMethod(target, target.method, name, middleware)
func VerifC16_Nesting() {
	na, nb := verifParam()/4, verifParam()%4
	var trace []int
	var ctor, prov []ServiceMiddleware
	var specs []verifMwSpec
	mk := func(id int) verifMwSpec {
		return verifMwSpec{id: id, rewriteArg: verifNondetBool(), rewriteRes: verifNondetBool(), delta: verifStr(1)}
	}
	var ctorSpecs, provSpecs []verifMwSpec
	for i := 0; i < na; i++ {
		s := mk(1 + i)
		ctorSpecs = append(ctorSpecs, s)
		ctor = append(ctor, verifMiddleware(s, &trace))
	}
	for i := 0; i < nb; i++ {
		s := mk(101 + i)
		provSpecs = append(provSpecs, s)
		prov = append(prov, verifMiddleware(s, &trace))
	}
	_ = specs
	provider := NewFServiceProvider(nil, nil, prov...)
	// spare capacity in the caller's variadic slice must not matter
	spare := make([]ServiceMiddleware, len(ctor), len(ctor)+verifChoice(2)*2)
	copy(spare, ctor)
	middleware := append(spare, provider.GetMiddleware()...)

	h := &verifPingHandler{outcome: verifOutcome(verifChoice(2)*verifOutUndeclared, 0)}
	m := NewMethod(h, h.Ping, "Ping", middleware)
	extra := verifChoice(2) == 1
	var extraSpec verifMwSpec
	if extra {
		extraSpec = mk(1000)
		m.AddMiddleware(verifMiddleware(extraSpec, &trace))
		verifReach("added-later")
	}
	arg := verifStr(1)
	res := m.Invoke([]interface{}{NewFContext("c"), arg})

	// expected order, outermost first: [added later] provider[nb-1..0] ctor[na-1..0]
	var order []verifMwSpec
	if extra {
		order = append(order, extraSpec)
	}
	for i := nb - 1; i >= 0; i-- {
		order = append(order, provSpecs[i])
	}
	for i := na - 1; i >= 0; i-- {
		order = append(order, ctorSpecs[i])
	}
	verifAssert(h.calls == 1, "the target is invoked exactly once")
	verifAssert(len(trace) == 2*len(order), "every middleware is entered and left exactly once")
	wantArg := arg
	for i, s := range order {
		verifAssert(trace[i] == s.id, "entry order: later-listed wraps earlier, provider wraps constructor")
		verifAssert(trace[len(trace)-1-i] == -s.id, "exit order is the reverse of the entry order")
		if s.rewriteArg {
			wantArg += s.delta
		}
	}
	verifAssert(len(h.args) == 1 && h.args[0] == wantArg, "the target sees the arguments as rewritten by every middleware, outermost first")
	if res.Error() == nil {
		wantRes := "re:" + wantArg
		for i := len(order) - 1; i >= 0; i-- {
			if order[i].rewriteRes {
				wantRes += order[i].delta
			}
		}
		verifAssert(len(res) == 2 && res[0].(string) == wantRes, "the caller sees the result as rewritten by every middleware, innermost first")
		verifReach("value")
	} else {
		verifAssert(res.Error().Error() == "boom", "the caller sees the target's error")
		verifReach("error")
	}
	verifReach("end")
}
