package frugal

// C06: the inbound path never stalls (no head-of-line blocking).

import (
	"time"

	"github.com/nats-io/nats.go"
)

func init() {
	verifHarnesses["VerifC06_AdapterNoHOL"] = VerifC06_AdapterNoHOL
}

type verifResult struct {
	err   error
	opid  string
	data  []byte
	valid bool
}

func verifRequest(ft FTransport, ctx FContext, done chan verifResult) {
	tr, err := ft.Request(ctx, []byte{0, 0, 0, 1, 7})
	r := verifResult{err: err}
	if err == nil && tr != nil {
		r.opid, r.data = verifFrameOpID(tr)
		r.valid = true
	}
	done <- r
}

// One caller with no deadline, an adversarial stream of k frames (each for the
// caller's op id or for an op id nobody issued, duplicates allowed), then a
// fresh request whose response must still be delivered.
func VerifC06_AdapterNoHOL() {
	pipe := newVerifPipe()
	pipe.coalesce = verifChoice(2) == 1 // frames arrive one per read, or back to back in one segment
	ft := NewAdapterTransport(pipe)
	verifAssert(ft.Open() == nil, "open")

	c1 := NewFContext("a")
	c1.SetTimeout(0)
	done1 := make(chan verifResult, 1)
	go verifRequest(ft, c1, done1)
	<-pipe.sent // the peer answers only requests it has received

	k := verifParam()
	own := 0
	for i := 0; i < k; i++ {
		if verifChoice(2) == 0 {
			pipe.feed(verifResponseFrame(verifOpID(c1), []byte{1}))
			own++
		} else {
			pipe.feed(verifResponseFrame("99999", []byte{2}))
		}
	}
	if own == 0 {
		pipe.feed(verifResponseFrame(verifOpID(c1), []byte{1}))
	}
	r1 := <-done1
	verifAssert(r1.err == nil && r1.opid == verifOpID(c1), "first caller completes with its own frame")
	if own >= 3 {
		verifReach("triple-duplicate")
	}

	// a fresh request after the adversarial prefix must be served promptly
	c2 := NewFContext("b")
	c2.SetTimeout(0)
	done2 := make(chan verifResult, 1)
	go verifRequest(ft, c2, done2)
	<-pipe.sent
	pipe.feed(verifResponseFrame(verifOpID(c2), []byte{3}))
	r2 := <-done2
	verifAssert(r2.err == nil && r2.opid == verifOpID(c2) && len(r2.data) == 1 && r2.data[0] == 3, "fresh request gets its own response")
	verifReach("end")
}

func init() {
	verifHarnesses["VerifC06_DispatchNeverBlocks"] = VerifC06_DispatchNeverBlocks
}

// (a) from an arbitrary registry state, handling any well-formed frame returns
// (a blocked dispatch would be reported as a deadlock of this single thread).
func VerifC06_DispatchNeverBlocks() {
	r := &fRegistryImpl{channels: make(map[uint64]chan []byte)}
	verifHavocChanMap(r.channels, []byte{0xEE})
	op := verifStr(verifChoice(verifBound() + 1))
	frame := verifResponseFrame(op, verifBytes(verifChoice(3), 0))[4:]
	id, perr := getOpID(verifCtxWithOpID(op))
	var ch chan []byte
	had := false
	if perr == nil {
		ch, had = r.channels[id]
	}
	before := verifChanLen(ch)
	_ = r.Execute(frame)
	if had && before == 1 {
		verifReach("slot-full")
		verifAssert(verifChanLen(ch) == 1, "duplicate dropped")
	}
	if had && before == 0 {
		verifReach("slot-empty")
		verifAssert(verifChanLen(ch) == 1, "delivered")
	}
	if !had {
		verifReach("unknown")
	}
	verifReach("end")
}

func init() {
	verifHarnesses["VerifC06_NatsDuplicateContext"] = VerifC06_NatsDuplicateContext
}

// NATS client transport: while request A is in flight, a second request issued with the
// SAME FContext (same op id) is rejected; that rejected request must not disturb A, whose
// response, arriving afterwards, still completes it.
func VerifC06_NatsDuplicateContext() {
	b := newVerifBroker()
	tr := NewFNatsTransport(&nats.Conn{}, "svc", "_INBOX.c").(*fNatsTransport)
	verifAssert(tr.Open() == nil, "open")
	c := NewFContext("c")
	c.SetTimeout(time.Hour) // a lost response shows as TIMED_OUT
	var replyTo string
	seen := make(chan struct{}, 4)
	b.onPublish = func(p verifPub) {
		if p.reply != "" && replyTo == "" {
			replyTo = p.reply // request A's reply subject
			seen <- struct{}{}
		}
	}
	done := make(chan verifResult, 1)
	go verifRequest(tr, c, done)
	<-seen // the server has A
	// a stray second request on the same context
	if verifParam() == 0 {
		_, err := tr.Request(c, []byte{0, 0, 0, 1, 9})
		verifAssert(err != nil, "a request whose op id is already in flight is rejected")
	} else {
		verifAssert(tr.Oneway(c, []byte{0, 0, 0, 1, 9}) == nil || true, "a oneway on the same context is not tracked")
	}
	// now the server answers A
	b.inject(replyTo, "", verifResponseFrame(verifOpID(c), []byte{1}))
	r := <-done // a lost response is a deadlock here
	verifAssert(r.err == nil, "request A completes")
	verifAssert(r.valid && r.opid == verifOpID(c) && len(r.data) == 1 && r.data[0] == 1, "with its own response")
	verifAssert(tr.Close() == nil, "close")
	verifReach("end")
}

func init() {
	verifHarnesses["VerifC06_ReopenedStream"] = VerifC06_ReopenedStream
}

// "regardless of what was received before it": the connection is lost INSIDE an inbound frame (after
// any number of bytes of the size prefix or of the body), the transport is reopened, and a fresh
// request is made on the new connection: its response - the first bytes of the new stream - must be
// delivered, i.e. nothing of the interrupted frame may be carried over into the new connection.
func VerifC06_ReopenedStream() {
	pipe := newVerifPipe()
	ft := NewAdapterTransport(pipe)
	verifAssert(ft.Open() == nil, "open")

	c1 := NewFContext("a")
	c1.SetTimeout(0)
	done1 := make(chan verifResult, 1)
	if verifChoice(2) == 1 {
		// a complete exchange first
		go verifRequest(ft, c1, done1)
		<-pipe.sent
		pipe.feed(verifResponseFrame(verifOpID(c1), []byte{1}))
		r := <-done1
		verifAssert(r.err == nil && r.opid == verifOpID(c1), "the first exchange completes")
		verifReach("exchange-before-loss")
	}
	// a frame for nobody, cut after `cut` bytes (inside the size prefix or inside the body), then the peer is gone
	frame := verifResponseFrame("99999", []byte{2, 2, 2})
	cut := 1 + verifChoice(len(frame)-1)
	if cut > 4 {
		verifReach("cut-inside-body")
	}
	pipe.feed(frame[:cut])
	pipe.hangUp(nil)
	closed := <-ft.Closed()
	_ = closed
	verifAssert(!ft.IsOpen(), "the transport is closed after the stream ended inside a frame")

	verifAssert(ft.Open() == nil, "the transport reopens")
	c2 := NewFContext("b")
	c2.SetTimeout(0) // no deadline: an undelivered response shows as a deadlock
	done2 := make(chan verifResult, 1)
	go verifRequest(ft, c2, done2)
	<-pipe.sent
	pipe.feed(verifResponseFrame(verifOpID(c2), []byte{3}))
	r2 := <-done2
	verifAssert(r2.err == nil, "the request on the new connection completes")
	verifAssert(r2.valid && r2.opid == verifOpID(c2) && len(r2.data) == 1 && r2.data[0] == 3, "with its own response, read from the first byte of the new stream")
	verifAssert(ft.Close() == nil, "close")
	verifReach("end")
}
