package frugal

import (
	"bytes"
	"context"
	"encoding/binary"
	"sync"

	"github.com/apache/thrift/lib/go/thrift"
)

// C12: size limits are enforced exactly and reported, never silently.

func init() {
	verifHarnesses["VerifC12_BufferLimit"] = VerifC12_BufferLimit
	verifHarnesses["VerifC12_PrepareMessage"] = VerifC12_PrepareMessage
	verifHarnesses["VerifC12_SendReply"] = VerifC12_SendReply
}

// (a) every writer method of the bounded buffer, through the interface thrift's
// protocols use, with an arbitrary limit.
func VerifC12_BufferLimit() {
	L := uint(verifRange(0, 40))
	b := NewTMemoryOutputBuffer(L)
	var rt thrift.TRichTransport = b
	ops := verifParam()
	total := 4
	failed := false
	for i := 0; i < ops; i++ {
		n := verifChoice(verifBound() + 1)
		before := b.Len()
		var err error
		switch verifChoice(3) {
		case 0:
			_, err = rt.Write(verifBytes(n, 0))
		case 1:
			_, err = rt.WriteString(verifStr(n))
		case 2:
			n = 1
			err = rt.WriteByte(verifNondetU8())
		}
		over := L > 0 && uint(before+n) > L
		verifAssert((err != nil) == over, "a write is rejected iff it would exceed the limit")
		if over {
			failed = true
			verifReach("rejected")
			verifAssert(IsErrTooLarge(err), "the rejection is a too-large transport error")
			te, ok := err.(thrift.TTransportException)
			verifAssert(ok && te.TypeId() == TRANSPORT_EXCEPTION_REQUEST_TOO_LARGE, "error type is REQUEST_TOO_LARGE")
			verifAssert(b.Len() == 4, "the buffer is reset after a rejection")
			total = 4
		} else {
			total += n
			verifReach("accepted")
		}
		verifAssert(b.Len() == total, "buffer length is the sum of accepted writes")
		verifAssert(L == 0 || L < 4 || uint(b.Len()) <= L, "the buffer never holds more than the limit (beyond the 4-byte prefix)")
	}
	out := b.Bytes()
	verifAssert(len(out) == total && int(binary.BigEndian.Uint32(out)) == total-4, "frame size prefix is exact")
	_ = failed
	verifReach("end")
}

// verifMsg is a hand-written TStruct with three string fields; big is placed
// first, in the middle or last.
type verifMsg struct {
	a, b, c string
}

func (m *verifMsg) Write(ctx context.Context, p thrift.TProtocol) error {
	if err := p.WriteStructBegin(ctx, "verifMsg"); err != nil {
		return err
	}
	for i, s := range []string{m.a, m.b, m.c} {
		if err := p.WriteFieldBegin(ctx, "f", thrift.STRING, int16(i+1)); err != nil {
			return err
		}
		if err := p.WriteString(ctx, s); err != nil {
			return err
		}
		if err := p.WriteFieldEnd(ctx); err != nil {
			return err
		}
	}
	if err := p.WriteFieldStop(ctx); err != nil {
		return err
	}
	return p.WriteStructEnd(ctx)
}

func (m *verifMsg) Read(ctx context.Context, p thrift.TProtocol) error {
	if _, err := p.ReadStructBegin(ctx); err != nil {
		return err
	}
	for {
		_, typ, id, err := p.ReadFieldBegin(ctx)
		if err != nil {
			return err
		}
		if typ == thrift.STOP {
			break
		}
		if typ != thrift.STRING {
			if err := p.Skip(ctx, typ); err != nil {
				return err
			}
		} else {
			s, err := p.ReadString(ctx)
			if err != nil {
				return err
			}
			switch id {
			case 1:
				m.a = s
			case 2:
				m.b = s
			case 3:
				m.c = s
			}
		}
		if err := p.ReadFieldEnd(ctx); err != nil {
			return err
		}
	}
	return p.ReadStructEnd(ctx)
}

func verifMsgWithBig(n, pos int) *verifMsg {
	m := &verifMsg{a: "x", b: "y", c: "z"}
	big := verifStr(n)
	switch pos {
	case 0:
		m.a = big
	case 1:
		m.b = big
	default:
		m.c = big
	}
	return m
}

// verifFramedSize computes the framed size of a call independently of the buffer under test.
func verifFramedSize(fctx FContext, method string, m *verifMsg, response bool) int {
	ref := thrift.NewTMemoryBuffer()
	p := verifProto(ref)
	if response {
		p.WriteResponseHeader(fctx)
	} else {
		p.WriteRequestHeader(fctx)
	}
	p.WriteMessageBegin(context.Background(), method, thrift.CALL, 0)
	m.Write(context.Background(), p)
	p.WriteMessageEnd(context.Background())
	return 4 + ref.Len()
}

// (b) the request side: prepareMessage fails with REQUEST_TOO_LARGE iff the framed size exceeds the limit.
func VerifC12_PrepareMessage() {
	fctx := NewFContext("c")
	pos := verifParam()
	m := verifMsgWithBig(verifChoice(verifBound()+1), pos)
	size := verifFramedSize(fctx, "ping", m, false)
	// limits around the size, 0 = unbounded
	var L uint
	switch verifChoice(5) {
	case 0:
		L = 0
	case 1:
		L = uint(size - 1)
	case 2:
		L = uint(size)
	case 3:
		L = uint(size + 1)
	case 4:
		L = uint(verifRange(60, size+2))
	}
	client := FStandardClient{protocolFactory: NewFProtocolFactory(thrift.NewTBinaryProtocolFactoryDefault()), limit: L}
	out, err := client.prepareMessage(context.Background(), fctx, "ping", m, thrift.CALL)
	over := L > 0 && uint(size) > L
	verifAssert((err != nil) == over, "prepareMessage fails iff the framed size exceeds the limit")
	if over {
		verifReach("too-large")
		te, ok := err.(thrift.TTransportException)
		verifAssert(ok && te.TypeId() == TRANSPORT_EXCEPTION_REQUEST_TOO_LARGE, "failure is REQUEST_TOO_LARGE")
	} else {
		verifReach("fits")
		verifAssert(len(out) == size && int(binary.BigEndian.Uint32(out)) == size-4, "payload length and frame prefix exact")
	}
	// the same client keeps working for an in-limit message afterwards
	small := &verifMsg{a: "x", b: "y", c: "z"}
	ssize := verifFramedSize(fctx, "ping", small, false)
	_, err2 := client.prepareMessage(context.Background(), fctx, "ping", small, thrift.CALL)
	verifAssert((err2 != nil) == (L > 0 && uint(ssize) > L), "a following message is judged on its own size")
	verifReach("end")
}

// (c) the response side: an oversize reply becomes exactly one RESPONSE_TOO_LARGE
// exception for the same op id, which the client maps to transport error 101.
func VerifC12_SendReply() {
	fctx := NewFContext("c")
	sctxWire := thrift.NewTMemoryBuffer()
	verifProto(sctxWire).WriteRequestHeader(fctx)
	sctx, err := verifProto(&thrift.TMemoryBuffer{Buffer: bytes.NewBuffer(sctxWire.Bytes())}).ReadRequestHeader()
	verifAssert(err == nil, "request header decodes")

	pos := verifParam()
	m := verifMsgWithBig(90+verifChoice(verifBound()+1), pos)
	size := verifFramedSize(sctx, "ping", m, true)
	var L uint
	switch verifChoice(4) {
	case 0:
		L = 0
	case 1:
		L = uint(size - 1)
	case 2:
		L = uint(size)
	case 3:
		L = uint(verifRange(160, size+1))
	}
	// the limit must at least admit the RESPONSE_TOO_LARGE reply itself (below 160 bytes here)
	verifAssume(L == 0 || L >= 160)
	out := NewTMemoryOutputBuffer(L)
	pf := NewFBaseProcessorFunction(&sync.Mutex{}, nil)
	rerr := pf.SendReply(sctx, verifProto(out), "ping", m)
	verifAssert(rerr == nil, "SendReply handles the oversize case itself")
	over := L > 0 && uint(size) > L
	verifAssert(out.HasWriteData(), "a reply frame is produced")
	frame := out.Bytes()
	verifAssert(int(binary.BigEndian.Uint32(frame)) == len(frame)-4, "reply frame prefix exact")
	verifAssert(L == 0 || uint(len(frame)) <= L || over, "an in-limit reply fits the limit")

	// the client side of the same call
	client := FStandardClient{protocolFactory: NewFProtocolFactory(thrift.NewTBinaryProtocolFactoryDefault())}
	res := &verifMsg{}
	cerr := client.processReply(context.Background(), fctx, "ping", res, &thrift.TMemoryBuffer{Buffer: bytes.NewBuffer(frame[4:])})
	if over {
		verifReach("too-large")
		te, ok := cerr.(thrift.TTransportException)
		verifAssert(ok && te.TypeId() == TRANSPORT_EXCEPTION_RESPONSE_TOO_LARGE, "caller sees RESPONSE_TOO_LARGE")
	} else {
		verifReach("fits")
		verifAssert(cerr == nil, "an in-limit reply is delivered")
		verifAssert(res.a == m.a && res.b == m.b && res.c == m.c, "reply content intact")
	}
	verifReach("end")
}
