package frugal

import (
	"github.com/apache/thrift/lib/go/thrift"
	"time"
)

// C17: op ids are unique; FContexts are safe to share and clone.

func init() {
	verifHarnesses["VerifC17_OpIDsUnique"] = VerifC17_OpIDsUnique
	verifHarnesses["VerifC17_SharedContext"] = VerifC17_SharedContext
	verifHarnesses["VerifC17_CloneIndependent"] = VerifC17_CloneIndependent
}

// (a) from an arbitrary counter value, contexts created / cloned / received
// concurrently all carry pairwise different op ids, different from every id
// issued before.
func VerifC17_OpIDsUnique() {
	start := verifNondetU64()
	verifAssume(start <= ^uint64(0)-8)
	nextOpID = start
	verifWatch(&nextOpID, "the op id counter")
	base := NewFContext("x") // issued sequentially first
	ids := make(chan uint64, 8)
	workers := 2 + verifParam()
	for w := 0; w < workers; w++ {
		kind := verifChoice(3)
		go func() {
			var c FContext
			switch kind {
			case 0:
				c = NewFContext("y")
			case 1:
				c = Clone(base)
			default:
				c = base.(*FContextImpl).Clone()
			}
			id, err := getOpID(c)
			verifAssert(err == nil, "op id is a number")
			ids <- id
		}()
	}
	var seen []uint64
	b, _ := getOpID(base)
	verifAssert(b == start+1, "first id is counter+1")
	seen = append(seen, b)
	for w := 0; w < workers; w++ {
		id := <-ids
		verifAssert(id > start, "id was not issued before")
		for _, s := range seen {
			verifAssert(id != s, "op ids are pairwise different")
		}
		seen = append(seen, id)
	}
	verifReach("end")
}

// (b) concurrent use of one context: every map access holds the context's
// mutex, and the final state is that of some sequential order.
func VerifC17_SharedContext() {
	c := NewFContext("cid").(*FContextImpl)
	verifGuard(c.requestHeaders, &c.mu, "FContextImpl.requestHeaders")
	verifGuard(c.responseHeaders, &c.mu, "FContextImpl.responseHeaders")
	verifGuard(c.ephemeralProperties, &c.mu, "FContextImpl.ephemeralProperties")
	done := make(chan int, 4)
	n := 2
	for w := 0; w < n; w++ {
		w := w
		op := verifChoice(9)
		go func() {
			switch op {
			case 7: // a send serialises the context while somebody else uses it
				p := NewFProtocolFactory(thrift.NewTBinaryProtocolFactoryDefault()).GetProtocol(thrift.NewTMemoryBuffer())
				verifAssert(p.WriteRequestHeader(c) == nil, "request header serialises")
			case 8:
				p := NewFProtocolFactory(thrift.NewTBinaryProtocolFactoryDefault()).GetProtocol(thrift.NewTMemoryBuffer())
				verifAssert(p.WriteResponseHeader(c) == nil, "response header serialises")
			case 0:
				c.AddRequestHeader("k", string(rune('a'+w)))
			case 1:
				_, _ = c.RequestHeader("k")
				_ = c.RequestHeaders()
			case 2:
				c.AddResponseHeader("r", string(rune('a'+w)))
				_, _ = c.ResponseHeader("r")
				_ = c.ResponseHeaders()
			case 3:
				c.SetTimeout(time.Duration(w+1) * time.Second)
				_ = c.Timeout()
			case 4:
				c.AddEphemeralProperty("p", w)
				_, _ = c.EphemeralProperty("p")
				_ = c.EphemeralProperties()
			case 5:
				cl := c.Clone()
				verifAssert(cl.CorrelationID() == "cid", "clone keeps the correlation id")
			case 6:
				_ = c.CorrelationID()
				_ = Clone(c)
			}
			done <- op
		}()
	}
	ops := []int{<-done, <-done}
	// sequential-order check on the keys written by AddRequestHeader
	if ops[0] == 0 && ops[1] == 0 {
		v, ok := c.RequestHeader("k")
		verifAssert(ok && (v == "a" || v == "b"), "last writer wins, value is one of the written ones")
		verifReach("two-writers")
	}
	verifAssert(c.CorrelationID() == "cid", "correlation id intact")
	verifReach("end")
}

// verifForeignCtx is an FContext implementation from outside the package: a decorator
// that embeds the interface (no Clone / ephemeral properties of its own).
type verifForeignCtx struct{ FContext }

// (c) a clone starts equal (except for a fresh op id) and is fully independent.
func VerifC17_CloneIndependent() {
	maxLen := verifBound()
	c := NewFContext("cid").(*FContextImpl)
	// every map is cloned both empty and non-empty
	if verifNondetBool() {
		k1 := verifStr(1 + verifChoice(maxLen))
		verifAssume(k1 != opIDHeader)
		v1 := verifStr(verifChoice(maxLen + 1))
		c.AddRequestHeader(k1, v1)
	}
	hasResp := verifNondetBool()
	if hasResp {
		rk := verifStr(1 + verifChoice(maxLen))
		rv := verifStr(verifChoice(maxLen + 1))
		c.AddResponseHeader(rk, rv)
	} else {
		verifReach("empty-response-headers")
	}
	hasProp := verifNondetBool()
	if hasProp {
		c.AddEphemeralProperty("prop", 7)
	}
	// whole and fractional milliseconds: the wire carries whole milliseconds only
	c.SetTimeout([]time.Duration{0, 1500 * time.Millisecond, 3 * time.Second, 2500 * time.Microsecond, time.Nanosecond, time.Second + time.Nanosecond}[verifChoice(6)])

	var cl FContext
	switch verifParam() {
	case 0:
		cl = c.Clone()
	case 1:
		cl = Clone(c)
	default: // a decorator that only implements FContext: the generic branch of Clone
		cl = Clone(verifForeignCtx{c})
		verifReach("foreign-context")
	}
	// starts equal except for the op id
	a, b := c.RequestHeaders(), cl.RequestHeaders()
	verifAssert(len(a) == len(b), "same request header names")
	for k, v := range a {
		if k == opIDHeader {
			verifAssert(b[k] != v, "the clone has a new op id")
			continue
		}
		verifAssert(b[k] == v, "request headers equal")
	}
	verifAssert(verifMapEq(c.ResponseHeaders(), cl.ResponseHeaders()) && verifMapEq(cl.ResponseHeaders(), c.ResponseHeaders()), "response headers equal")
	verifAssert(cl.Timeout() == c.Timeout(), "timeout equal")
	if ce, ok := cl.(FContextWithEphemeralProperties); ok {
		p, has := ce.EphemeralProperty("prop")
		// (a foreign context exposes no ephemeral properties, so its clone has none)
		want := hasProp && verifParam() < 2
		verifAssert(has == want && (!has || p == 7), "ephemeral properties equal")
	}

	// a sibling clone taken in the same state
	var sib FContext
	switch verifParam() {
	case 0:
		sib = c.Clone()
	case 1:
		sib = Clone(c)
	default:
		sib = Clone(verifForeignCtx{c})
	}
	verifAssert(verifOpID(sib) != verifOpID(cl) && verifOpID(sib) != verifOpID(c) && verifOpID(cl) != verifOpID(c), "original, clone and sibling clone carry three different op ids")
	sibReq, sibResp := sib.RequestHeaders(), sib.ResponseHeaders()

	// mutate one side, observe the other
	mk := verifStr(1 + verifChoice(maxLen))
	mv := verifStr(verifChoice(maxLen + 1))
	beforeReq, beforeResp := cl.RequestHeaders(), cl.ResponseHeaders()
	origReq, origResp := c.RequestHeaders(), c.ResponseHeaders()
	switch verifChoice(4) {
	case 0:
		c.AddRequestHeader(mk, mv)
		verifAssert(verifMapEq(beforeReq, cl.RequestHeaders()) && verifMapEq(cl.RequestHeaders(), beforeReq), "a request header added to the original is invisible to the clone")
	case 1:
		c.AddResponseHeader(mk, mv)
		verifAssert(verifMapEq(beforeResp, cl.ResponseHeaders()) && verifMapEq(cl.ResponseHeaders(), beforeResp), "a response header added to the original is invisible to the clone")
	case 2:
		cl.AddRequestHeader(mk, mv)
		verifAssert(verifMapEq(origReq, c.RequestHeaders()) && verifMapEq(c.RequestHeaders(), origReq), "a request header added to the clone is invisible to the original")
	case 3:
		cl.AddResponseHeader(mk, mv)
		cl.SetTimeout(99 * time.Second)
		verifAssert(verifMapEq(origResp, c.ResponseHeaders()) && verifMapEq(c.ResponseHeaders(), origResp), "a response header added to the clone is invisible to the original")
		verifAssert(verifMapEq(origReq, c.RequestHeaders()), "a timeout set on the clone is invisible to the original")
	}
	verifAssert(verifMapEq(sibReq, sib.RequestHeaders()) && verifMapEq(sib.RequestHeaders(), sibReq) &&
		verifMapEq(sibResp, sib.ResponseHeaders()) && verifMapEq(sib.ResponseHeaders(), sibResp), "a sibling clone is unaffected by changes to the original or to another clone")
	if ce, ok := cl.(FContextWithEphemeralProperties); ok {
		ce.AddEphemeralProperty("other", 1)
		_, has := c.EphemeralProperty("other")
		verifAssert(!has, "an ephemeral property added to the clone is invisible to the original")
	}
	verifReach("end")
}
