package frugal

import (
	"bytes"

	"github.com/apache/thrift/lib/go/thrift"
	"github.com/nats-io/nats.go"
)

// C05: no received byte sequence can crash or wedge a process.
// Every harness feeds an arbitrary buffer (length 0..verifBound(), arbitrary
// content, capacity == length or length+3) into one receiving entry point.

func init() {
	verifHarnesses["VerifC05_FramePath"] = VerifC05_FramePath
	verifHarnesses["VerifC05_UnmarshalFrame"] = VerifC05_UnmarshalFrame
	verifHarnesses["VerifC05_AddHeaders"] = VerifC05_AddHeaders
	verifHarnesses["VerifC05_StreamPath"] = VerifC05_StreamPath
	verifHarnesses["VerifC05_ExecuteFrame"] = VerifC05_ExecuteFrame
	verifHarnesses["VerifC05_NatsHandler"] = VerifC05_NatsHandler
}

// verifBuffer returns an arbitrary buffer; the length is verifParam() when the
// driver splits the entry by length, otherwise every length up to the bound.
func verifBuffer() []byte {
	n := verifParam()
	if n < 0 {
		n = verifChoice(verifBound() + 1)
	}
	spare := verifChoice(2) * 3
	return verifBytes(n, spare)
}

// frame path: getHeadersFromFrame and the registry's Execute on an arbitrary frame
func VerifC05_FramePath() {
	frame := verifBuffer()
	verifNoPanic("getHeadersFromFrame panics", func() {
		h, err := getHeadersFromFrame(frame)
		verifAssert(err != nil || h != nil, "value or error")
		if err == nil {
			verifReach("parsed")
		} else {
			verifReach("rejected")
		}
	})
	verifNoPanic("registry.Execute panics", func() {
		r := newFRegistry()
		_ = r.Execute(frame) // nothing registered: must be discarded or rejected
	})
	verifReach("end")
}

func VerifC05_UnmarshalFrame() {
	frame := verifBuffer()
	verifNoPanic("unmarshalFrame panics", func() {
		c, err := unmarshalFrame(frame)
		if err == nil {
			verifAssert(c != nil, "value or error")
			verifReach("parsed")
		} else {
			verifReach("rejected")
		}
	})
	verifReach("end")
}

func VerifC05_AddHeaders() {
	frame := verifBuffer()
	verifNoPanic("addHeadersToFrame panics", func() {
		out, err := addHeadersToFrame(frame, map[string]string{"k": "v"})
		if err == nil {
			verifAssert(out != nil, "value or error")
			verifReach("parsed")
		} else {
			verifReach("rejected")
		}
	})
	verifReach("end")
}

// stream path: FProtocol.ReadRequestHeader / ReadResponseHeader on an arbitrary stream
func VerifC05_StreamPath() {
	data := verifBuffer()
	pf := NewFProtocolFactory(thrift.NewTBinaryProtocolFactoryDefault())
	verifNoPanic("ReadRequestHeader panics", func() {
		tr := &thrift.TMemoryBuffer{Buffer: bytes.NewBuffer(data)}
		ctx, err := pf.GetProtocol(tr).ReadRequestHeader()
		verifAssert(err != nil || ctx != nil, "value or error")
		if err != nil {
			verifReach("rejected")
		}
	})
	verifNoPanic("ReadResponseHeader panics", func() {
		tr := &thrift.TMemoryBuffer{Buffer: bytes.NewBuffer(data)}
		if err := pf.GetProtocol(tr).ReadResponseHeader(NewFContext("c")); err == nil {
			verifReach("parsed")
		}
	})
	verifReach("end")
}

// client response path below the transports: ExecuteFrame on an arbitrary message
func VerifC05_ExecuteFrame() {
	frame := verifBuffer()
	verifNoPanic("ExecuteFrame panics", func() {
		b := newFBaseTransport(0)
		_ = b.ExecuteFrame(frame)
	})
	verifReach("end")
}

// NATS client: handler on an arbitrary message (data, subject, status header)
func VerifC05_NatsHandler() {
	data := verifBuffer()
	tr := &fNatsTransport{fBaseTransport: newFBaseTransport(0), inbox: "in"}
	msg := &nats.Msg{Subject: verifStr(verifChoice(4)), Data: data}
	switch verifChoice(3) {
	case 1:
		msg.Header = nats.Header{"Status": []string{"503"}}
	case 2:
		msg.Header = nats.Header{"Status": []string{verifStr(2)}}
	}
	verifNoPanic("fNatsTransport.handler panics", func() {
		tr.handler(msg)
	})
	verifReach("end")
}

func init() {
	verifHarnesses["VerifC05_FramedStream"] = VerifC05_FramedStream
	verifHarnesses["VerifC05_NatsServerFrame"] = VerifC05_NatsServerFrame
	verifHarnesses["VerifC05_SubscriberCallback"] = VerifC05_SubscriberCallback
}

// connection-oriented receiver: an arbitrary byte stream on the socket of the
// adapter transport (any frame-size field, any cut): the read loop never panics
// and the transport ends closed with exactly one close cause.
func VerifC05_FramedStream() {
	pipe := newVerifPipe()
	ft := NewAdapterTransport(pipe)
	verifAssert(ft.Open() == nil, "open")
	closed := ft.Closed()
	data := verifBuffer()
	if len(data) > 0 {
		pipe.feed(data)
	}
	pipe.hangUp(nil)
	_, ok := <-closed // a reader that neither reports nor returns is a deadlock here
	verifAssert(ok, "the end of the stream is reported")
	verifAssert(!ft.IsOpen(), "the transport is closed")
	verifReach("end")
}

// message-oriented server: an arbitrary NATS request is answered or discarded
// without a panic, and the next well-formed request is served.
func VerifC05_NatsServerFrame() {
	hd := &verifPingHandler{outcome: verifOutcome(verifOutValue, 0)}
	b := newVerifBroker()
	srv := NewFNatsServerBuilder(&nats.Conn{}, verifPingProcessor(hd), NewFProtocolFactory(thrift.NewTBinaryProtocolFactoryDefault()), []string{"svc"}).Build()
	data := verifBuffer()
	f := NewFContext("c")
	good := prependFrameSize(verifRequestFrame(f, verifReqKnown, "a"))
	// the server as it really runs: a panic in its worker goroutine kills the process and is reported as such
	verifServe(srv, b, verifPub{reply: "r1", data: data}, verifPub{reply: "r2", data: good})
	verifAssert(verifReplyCount(b, "r1") <= 1, "at most one reply per request")
	verifAssert(verifReplyCount(b, "r2") == 1, "a later well-formed request is processed and answered")
	verifReach("end")
}

// subscriber path: an arbitrary published frame through a receive callback of
// the generated shape: rejected or handled, never a panic.
func VerifC05_SubscriberCallback() {
	pf := NewFProtocolFactory(thrift.NewTBinaryProtocolFactoryDefault())
	calls := 0
	cb := verifRecv(pf, "op", func(ctx FContext, m *verifMsg) error { calls++; return nil })
	data := verifBuffer()
	verifNoPanic("subscriber callback panics", func() {
		if len(data) >= 4 {
			_ = cb(&thrift.TMemoryBuffer{Buffer: bytes.NewBuffer(data[4:])})
		}
	})
	good := verifScopeFrame(pf, "op", "x", "h")
	before := calls
	verifAssert(cb(&thrift.TMemoryBuffer{Buffer: bytes.NewBuffer(good[4:])}) == nil && calls == before+1, "a later well-formed message is handled")
	verifReach("end")
}

func init() {
	verifHarnesses["VerifC05_MutatedRequest"] = VerifC05_MutatedRequest
	verifHarnesses["VerifC05_MutatedPublish"] = VerifC05_MutatedPublish
}

// verifMutate overwrites a window of verifBound() bytes starting at offset
// verifParam() of a well-formed frame with arbitrary values (every size field,
// type byte, version byte and string byte of the frame is reached by some
// window).
func verifMutate(good []byte) []byte {
	at, w := verifParam(), verifBound()
	if at < 0 {
		at = 0
	}
	if w <= 0 {
		w = 4
	}
	at %= len(good) // a window offset past the frame wraps around
	out := append([]byte{}, good...)
	win := verifBytes(w, 0)
	for i := 0; i < w && at+i < len(out); i++ {
		out[at+i] = win[i]
	}
	return out
}

// a well-formed request with an arbitrary 4-byte window, through the NATS
// server's processFrame, FBaseProcessor.Process and a processor function of the
// generated shape: no panic, and the next well-formed request is served.
func VerifC05_MutatedRequest() {
	hd := &verifPingHandler{outcome: verifOutcome(verifOutValue, 0)}
	b := newVerifBroker()
	srv := NewFNatsServerBuilder(&nats.Conn{}, verifPingProcessor(hd), NewFProtocolFactory(thrift.NewTBinaryProtocolFactoryDefault()), []string{"svc"}).Build()
	f0 := NewFContext("c0")
	f0.AddRequestHeader("k", "v")
	data := verifMutate(prependFrameSize(verifRequestFrame(f0, verifReqKnown, "a")))
	f := NewFContext("c")
	good := prependFrameSize(verifRequestFrame(f, verifReqKnown, "a"))
	verifServe(srv, b, verifPub{reply: "r1", data: data}, verifPub{reply: "r2", data: good})
	verifAssert(verifReplyCount(b, "r1") <= 1, "at most one reply per request")
	verifAssert(verifReplyCount(b, "r2") == 1, "a later well-formed request is processed and answered")
	verifReach("end")
}

// the same for a published message through a receive callback of the generated shape
func VerifC05_MutatedPublish() {
	pf := NewFProtocolFactory(thrift.NewTBinaryProtocolFactoryDefault())
	calls := 0
	cb := verifRecv(pf, "op", func(ctx FContext, m *verifMsg) error { calls++; return nil })
	data := verifMutate(verifScopeFrame(pf, "op", "x", "h"))
	verifNoPanic("subscriber callback panics", func() {
		_ = cb(&thrift.TMemoryBuffer{Buffer: bytes.NewBuffer(data[4:])})
	})
	good := verifScopeFrame(pf, "op", "x", "h")
	before := calls
	verifAssert(cb(&thrift.TMemoryBuffer{Buffer: bytes.NewBuffer(good[4:])}) == nil && calls == before+1, "a later well-formed message is handled")
	verifReach("end")
}
