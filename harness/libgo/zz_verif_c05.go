package frugal

import (
	"bytes"

	"github.com/apache/thrift/lib/go/thrift"
	"github.com/nats-io/nats.go"
)

// C05: no received byte sequence can crash or wedge a process.
// Every harness feeds an arbitrary buffer (length 0..verifBound(), arbitrary
// content, capacity == length or length+3) into one receiving entry point.

func init() {
	verifHarnesses["VerifC05_FramePath"] = VerifC05_FramePath
	verifHarnesses["VerifC05_UnmarshalFrame"] = VerifC05_UnmarshalFrame
	verifHarnesses["VerifC05_AddHeaders"] = VerifC05_AddHeaders
	verifHarnesses["VerifC05_StreamPath"] = VerifC05_StreamPath
	verifHarnesses["VerifC05_ExecuteFrame"] = VerifC05_ExecuteFrame
	verifHarnesses["VerifC05_NatsHandler"] = VerifC05_NatsHandler
}

// verifBuffer returns an arbitrary buffer; the length is verifParam() when the
// driver splits the entry by length, otherwise every length up to the bound.
func verifBuffer() []byte {
	n := verifParam()
	if n < 0 {
		n = verifChoice(verifBound() + 1)
	}
	spare := verifChoice(2) * 3
	return verifBytes(n, spare)
}

// frame path: getHeadersFromFrame and the registry's Execute on an arbitrary frame
func VerifC05_FramePath() {
	frame := verifBuffer()
	verifNoPanic("getHeadersFromFrame panics", func() {
		h, err := getHeadersFromFrame(frame)
		verifAssert(err != nil || h != nil, "value or error")
		if err == nil {
			verifReach("parsed")
		} else {
			verifReach("rejected")
		}
	})
	verifNoPanic("registry.Execute panics", func() {
		r := newFRegistry()
		_ = r.Execute(frame) // nothing registered: must be discarded or rejected
	})
	verifReach("end")
}

func VerifC05_UnmarshalFrame() {
	frame := verifBuffer()
	verifNoPanic("unmarshalFrame panics", func() {
		c, err := unmarshalFrame(frame)
		if err == nil {
			verifAssert(c != nil, "value or error")
			verifReach("parsed")
		} else {
			verifReach("rejected")
		}
	})
	verifReach("end")
}

func VerifC05_AddHeaders() {
	frame := verifBuffer()
	verifNoPanic("addHeadersToFrame panics", func() {
		out, err := addHeadersToFrame(frame, map[string]string{"k": "v"})
		if err == nil {
			verifAssert(out != nil, "value or error")
			verifReach("parsed")
		} else {
			verifReach("rejected")
		}
	})
	verifReach("end")
}

// stream path: FProtocol.ReadRequestHeader / ReadResponseHeader on an arbitrary stream
func VerifC05_StreamPath() {
	data := verifBuffer()
	pf := NewFProtocolFactory(thrift.NewTBinaryProtocolFactoryDefault())
	verifNoPanic("ReadRequestHeader panics", func() {
		tr := &thrift.TMemoryBuffer{Buffer: bytes.NewBuffer(data)}
		ctx, err := pf.GetProtocol(tr).ReadRequestHeader()
		verifAssert(err != nil || ctx != nil, "value or error")
		if err != nil {
			verifReach("rejected")
		}
	})
	verifNoPanic("ReadResponseHeader panics", func() {
		tr := &thrift.TMemoryBuffer{Buffer: bytes.NewBuffer(data)}
		if err := pf.GetProtocol(tr).ReadResponseHeader(NewFContext("c")); err == nil {
			verifReach("parsed")
		}
	})
	verifReach("end")
}

// client response path below the transports: ExecuteFrame on an arbitrary message
func VerifC05_ExecuteFrame() {
	frame := verifBuffer()
	verifNoPanic("ExecuteFrame panics", func() {
		b := newFBaseTransport(0)
		_ = b.ExecuteFrame(frame)
	})
	verifReach("end")
}

// NATS client: handler on an arbitrary message (data, subject, status header)
func VerifC05_NatsHandler() {
	data := verifBuffer()
	tr := &fNatsTransport{fBaseTransport: newFBaseTransport(0), inbox: "in"}
	msg := &nats.Msg{Subject: verifStr(verifChoice(4)), Data: data}
	switch verifChoice(3) {
	case 1:
		msg.Header = nats.Header{"Status": []string{"503"}}
	case 2:
		msg.Header = nats.Header{"Status": []string{verifStr(2)}}
	}
	verifNoPanic("fNatsTransport.handler panics", func() {
		tr.handler(msg)
	})
	verifReach("end")
}
