package frugal

import (
	"context"
	"encoding/binary"
	"errors"
	"io"

	"github.com/apache/thrift/lib/go/thrift"
)

// verifPipe is a thrift.TTransport whose read side is fed by the harness (the
// adversarial peer) and whose write side records what was sent.
type verifPipe struct {
	in        chan []byte // chunks delivered by the peer; closed = EOF
	cur       []byte
	open      bool
	written   [][]byte
	flushes   int
	readErr   error // delivered instead of EOF when the feed is closed
	failOpen  bool
	closes    int
	opens     int
	sent      chan struct{} // one token per Flush: the peer has received a request
	inClosed  bool
	failClose bool
	failOpens int  // the next n Open calls fail
	coalesce  bool // a Read returns everything the peer has sent so far (several frames in one segment)
}

func newVerifPipe() *verifPipe {
	return &verifPipe{in: make(chan []byte, 16), sent: make(chan struct{}, 16)}
}

func (p *verifPipe) feed(b []byte) { p.in <- b }

// hangUp ends the inbound stream: pending chunks are still read, then Read
// returns io.EOF (or readErr if set).
func (p *verifPipe) hangUp(err error) {
	p.readErr = err
	if !p.inClosed {
		p.inClosed = true
		close(p.in)
	}
}

func (p *verifPipe) Read(buf []byte) (int, error) {
	if len(p.cur) == 0 {
		chunk, ok := <-p.in
		if !ok {
			if p.readErr != nil {
				return 0, p.readErr
			}
			return 0, io.EOF
		}
		p.cur = chunk
	}
	if p.coalesce {
		// like a socket: whatever has arrived is handed over together, up to len(buf)
		for len(p.cur) < len(buf) {
			select {
			case chunk, ok := <-p.in:
				if !ok {
					// the end of the stream is reported by the next Read
					p.in = make(chan []byte)
					close(p.in)
					goto done
				}
				p.cur = append(append([]byte{}, p.cur...), chunk...)
				continue
			default:
			}
			break
		}
	}
done:
	n := copy(buf, p.cur)
	p.cur = p.cur[n:]
	return n, nil
}

func (p *verifPipe) Write(buf []byte) (int, error) {
	p.written = append(p.written, append([]byte{}, buf...))
	return len(buf), nil
}

func (p *verifPipe) Flush(ctx context.Context) error {
	p.flushes++
	select {
	case p.sent <- struct{}{}:
	default:
	}
	return nil
}
func (p *verifPipe) RemainingBytes() uint64 { return ^uint64(0) }
func (p *verifPipe) IsOpen() bool           { return p.open }
func (p *verifPipe) Close() error {
	p.closes++
	if p.failClose {
		return errors.New("verif: close failed")
	}
	p.open = false
	// closing a socket unblocks a pending Read
	if !p.inClosed {
		p.inClosed = true
		close(p.in)
	}
	return nil
}
func (p *verifPipe) Open() error {
	p.opens++
	if p.failOpen {
		return errors.New("verif: open failed")
	}
	if p.failOpens > 0 {
		p.failOpens--
		return errors.New("verif: connection refused")
	}
	p.open = true
	if p.inClosed {
		// a new connection
		p.in = make(chan []byte, 16)
		p.inClosed = false
		p.cur = nil
		p.readErr = nil
	}
	return nil
}

var _ thrift.TTransport = (*verifPipe)(nil)

// verifResponseFrame builds a well-formed response frame (with size prefix)
// carrying the given op id and payload.
func verifResponseFrame(opid string, payload []byte) []byte {
	hdr := writeMarshaler.marshalHeaders(map[string]string{opIDHeader: opid})
	out := make([]byte, 4, 4+len(hdr)+len(payload))
	binary.BigEndian.PutUint32(out, uint32(len(hdr)+len(payload)))
	out = append(out, hdr...)
	return append(out, payload...)
}

func verifOpID(ctx FContext) string {
	s, _ := ctx.RequestHeader(opIDHeader)
	return s
}

// verifFrameOpID extracts the op id of a frame returned by Request.
func verifFrameOpID(tr thrift.TTransport) (string, []byte) {
	mb := tr.(*thrift.TMemoryBuffer)
	b := mb.Bytes()
	h, err := getHeadersFromFrame(b)
	if err != nil {
		return "<bad>", nil
	}
	_, _, end, _ := verifRefParse(b)
	return h[opIDHeader], b[end:]
}
