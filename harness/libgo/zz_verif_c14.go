package frugal

import (
	"bytes"
	"context"
	"encoding/binary"
	"errors"
	"fmt"
	"sync"

	"github.com/apache/thrift/lib/go/thrift"
)

// C14: the server answers every two-way request exactly once with a well-formed reply.

func init() {
	verifHarnesses["VerifC14_ProcessorReplies"] = VerifC14_ProcessorReplies
	verifHarnesses["VerifC14_SimpleServerLoop"] = VerifC14_SimpleServerLoop
	verifHarnesses["VerifC14_ConcurrentReplies"] = VerifC14_ConcurrentReplies
}

// ---- a service "ping(a string) string throws verifDeclared", written the way the generator writes it ----

type verifDeclared struct{ msg string }

func (e *verifDeclared) Error() string { return "declared: " + e.msg }

type verifPingResult struct {
	success *string
	failure *verifDeclared
}

func (r *verifPingResult) Write(ctx context.Context, p thrift.TProtocol) error {
	p.WriteStructBegin(ctx, "ping_result")
	if r.success != nil {
		p.WriteFieldBegin(ctx, "success", thrift.STRING, 0)
		p.WriteString(ctx, *r.success)
		p.WriteFieldEnd(ctx)
	}
	if r.failure != nil {
		p.WriteFieldBegin(ctx, "failure", thrift.STRING, 1)
		p.WriteString(ctx, r.failure.msg)
		p.WriteFieldEnd(ctx)
	}
	p.WriteFieldStop(ctx)
	return p.WriteStructEnd(ctx)
}

func (r *verifPingResult) Read(ctx context.Context, p thrift.TProtocol) error {
	if _, err := p.ReadStructBegin(ctx); err != nil {
		return err
	}
	for {
		_, typ, id, err := p.ReadFieldBegin(ctx)
		if err != nil {
			return err
		}
		if typ == thrift.STOP {
			break
		}
		if typ == thrift.STRING && (id == 0 || id == 1) {
			s, err := p.ReadString(ctx)
			if err != nil {
				return err
			}
			if id == 0 {
				r.success = &s
			} else {
				r.failure = &verifDeclared{s}
			}
		} else if err := p.Skip(ctx, typ); err != nil {
			return err
		}
		p.ReadFieldEnd(ctx)
	}
	return p.ReadStructEnd(ctx)
}

type verifPingHandler struct {
	lastCtx FContext
	onCall  func(FContext)
	calls   int
	args    []string
	outcome func(a string) (string, error)
}

func (h *verifPingHandler) Ping(ctx FContext, a string) (string, error) {
	h.lastCtx = ctx
	if h.onCall != nil {
		h.onCall(ctx)
	}
	h.calls++
	h.args = append(h.args, a)
	return h.outcome(a)
}

// Fire is a oneway method.
func (h *verifPingHandler) Fire(ctx FContext, a string) error {
	h.calls++
	h.args = append(h.args, a)
	_, err := h.outcome(a)
	return err
}

type verifFireFunction struct {
	*FBaseProcessorFunction
}

func (p *verifFireFunction) Process(fctx FContext, iprot, oprot *FProtocol) error {
	ctx, cancelFn := ToContext(fctx)
	defer cancelFn()
	args := verifMsg{}
	err := args.Read(ctx, iprot)
	iprot.ReadMessageEnd(ctx)
	if err != nil {
		return p.SendError(fctx, oprot, APPLICATION_EXCEPTION_PROTOCOL_ERROR, "fire", err.Error())
	}
	ret := p.InvokeMethod([]interface{}{fctx, args.a})
	if len(ret) != 1 {
		panic(fmt.Sprintf("Middleware returned %d arguments, expected 1", len(ret)))
	}
	if ret[0] != nil {
		err = ret[0].(error)
	}
	if err != nil {
		if typedError, ok := err.(thrift.TApplicationException); ok {
			p.SendError(fctx, oprot, typedError.TypeId(), "fire", typedError.Error())
			return nil
		}
		return p.SendError(fctx, oprot, APPLICATION_EXCEPTION_INTERNAL_ERROR, "fire", "Internal error processing fire: "+err.Error())
	}
	return err
}

type verifPingFunction struct {
	*FBaseProcessorFunction
}

func (p *verifPingFunction) Process(fctx FContext, iprot, oprot *FProtocol) error {
	ctx, cancelFn := ToContext(fctx)
	defer cancelFn()
	args := verifMsg{}
	err := args.Read(ctx, iprot)
	iprot.ReadMessageEnd(ctx)
	if err != nil {
		return p.SendError(fctx, oprot, APPLICATION_EXCEPTION_PROTOCOL_ERROR, "ping", err.Error())
	}
	result := verifPingResult{}
	ret := p.InvokeMethod([]interface{}{fctx, args.a})
	if len(ret) != 2 {
		panic(fmt.Sprintf("Middleware returned %d arguments, expected 2", len(ret)))
	}
	if ret[1] != nil {
		err = ret[1].(error)
	}
	if err != nil {
		if typedError, ok := err.(thrift.TApplicationException); ok {
			p.SendError(fctx, oprot, typedError.TypeId(), "ping", typedError.Error())
			return nil
		}
		switch v := err.(type) {
		case *verifDeclared:
			result.failure = v
		default:
			return p.SendError(fctx, oprot, APPLICATION_EXCEPTION_INTERNAL_ERROR, "ping", "Internal error processing ping: "+err.Error())
		}
	} else {
		var retval string = ret[0].(string)
		result.success = &retval
	}
	return p.SendReply(fctx, oprot, "ping", &result)
}

func verifPingProcessor(h *verifPingHandler, mw ...ServiceMiddleware) *FBaseProcessor {
	p := NewFBaseProcessor()
	p.AddToProcessorMap("ping", &verifPingFunction{NewFBaseProcessorFunction(p.GetWriteMutex(), NewMethod(h, h.Ping, "Ping", mw))})
	p.AddToProcessorMap("fire", &verifFireFunction{NewFBaseProcessorFunction(p.GetWriteMutex(), NewMethod(h, h.Fire, "Fire", mw))})
	return p
}

// handler outcomes
const (
	verifOutValue = iota
	verifOutDeclared
	verifOutUndeclared
	verifOutAppException
	verifOutcomes
)

func verifOutcome(kind int, appType int32) func(string) (string, error) {
	return func(a string) (string, error) {
		switch kind {
		case verifOutDeclared:
			return "", &verifDeclared{"d" + a}
		case verifOutUndeclared:
			return "", errors.New("boom")
		case verifOutAppException:
			return "", thrift.NewTApplicationException(appType, "app")
		}
		return "re:" + a, nil
	}
}

// request kinds
const (
	verifReqKnown = iota
	verifReqUnknownMethod
	verifReqTruncatedArgs
	verifReqWrongTypeArgs
	verifReqOneway
	verifReqKinds
)

// verifConcreteUnknown makes the unknown-method request use concrete names (set by
// harnesses whose transport base64-encodes the frame).
var verifConcreteUnknown bool

// verifRequestFrame builds a request frame (without the 4-byte prefix) of the given kind.
func verifRequestFrame(fctx FContext, kind int, arg string) []byte {
	c := FStandardClient{protocolFactory: NewFProtocolFactory(thrift.NewTBinaryProtocolFactoryDefault())}
	method := "ping"
	mt := thrift.CALL
	var body thrift.TStruct = &verifMsg{a: arg, b: "y", c: "z"}
	switch kind {
	case verifReqUnknownMethod:
		if verifConcreteUnknown {
			method = []string{"pin", "pingg", "Ping"}[verifChoice(3)]
		} else {
			method = verifStr(1 + verifChoice(2))
			verifAssume(method != "ping" && method != "fire")
		}
	case verifReqWrongTypeArgs:
		s := "ok"
		body = &verifPingResultI32{v: 7, s: &s}
	case verifReqOneway:
		mt = thrift.ONEWAY
		method = "fire"
	}
	out, err := c.prepareMessage(context.Background(), fctx, method, body, mt)
	verifAssert(err == nil, "request encodes")
	out = out[4:]
	if kind == verifReqTruncatedArgs {
		// cut somewhere inside the argument struct (after headers and message begin)
		cut := 1 + verifChoice(6)
		out = out[:len(out)-cut]
	}
	return out
}

// a struct whose field 1 is an i32 instead of a string
type verifPingResultI32 struct {
	v int32
	s *string
}

func (r *verifPingResultI32) Write(ctx context.Context, p thrift.TProtocol) error {
	p.WriteStructBegin(ctx, "x")
	p.WriteFieldBegin(ctx, "a", thrift.I32, 1)
	p.WriteI32(ctx, r.v)
	p.WriteFieldEnd(ctx)
	p.WriteFieldStop(ctx)
	return p.WriteStructEnd(ctx)
}
func (r *verifPingResultI32) Read(ctx context.Context, p thrift.TProtocol) error { return nil }

type verifReply struct {
	headers map[string]string
	opid    string
	cid     string
	name    string
	mtype   thrift.TMessageType
	appType int32
	success *string
	failure *verifDeclared
}

// verifParseReply is the independent reference reader for one reply frame (with prefix).
func verifParseReply(frame []byte) (verifReply, []byte, bool) {
	var r verifReply
	if len(frame) < 4 {
		return r, nil, false
	}
	n := int(binary.BigEndian.Uint32(frame))
	if 4+n > len(frame) {
		return r, nil, false
	}
	body, rest := frame[4:4+n], frame[4+n:]
	names, values, end, ok := verifRefParse(body)
	if !ok {
		return r, nil, false
	}
	r.headers = map[string]string{}
	for i := range names {
		r.headers[names[i]] = values[i]
		if names[i] == opIDHeader {
			r.opid = values[i]
		}
		if names[i] == cidHeader {
			r.cid = values[i]
		}
	}
	p := thrift.NewTBinaryProtocolFactoryDefault().GetProtocol(&thrift.TMemoryBuffer{Buffer: bytes.NewBuffer(body[end:])})
	ctx := context.Background()
	name, mt, _, err := p.ReadMessageBegin(ctx)
	if err != nil {
		return r, nil, false
	}
	r.name, r.mtype = name, mt
	if mt == thrift.EXCEPTION {
		ex := thrift.NewTApplicationException(0, "")
		if ex.Read(ctx, p) != nil {
			return r, nil, false
		}
		r.appType = ex.TypeId()
	} else {
		res := &verifPingResult{}
		if res.Read(ctx, p) != nil {
			return r, nil, false
		}
		r.success, r.failure = res.success, res.failure
	}
	if p.ReadMessageEnd(ctx) != nil {
		return r, nil, false
	}
	return r, rest, true
}

// verifCheckReply asserts that out holds exactly the one reply the request calls for.
func verifCheckReply(out []byte, fctx FContext, kind, outcome int, appType int32, arg string, h *verifPingHandler, callsBefore int) {
	if kind == verifReqOneway {
		verifAssert(h.calls == callsBefore+1, "the handler ran exactly once")
		if outcome == verifOutValue {
			verifAssert(len(out) == 0, "a successful oneway request produces no reply")
		}
		return
	}
	rep, rest, ok := verifParseReply(out)
	verifAssert(ok, "the reply is one well-formed frame")
	verifAssert(len(rest) == 0, "exactly one reply frame")
	verifAssert(rep.opid == verifOpID(fctx), "the reply carries the request's op id")
	verifAssert(rep.cid == fctx.CorrelationID(), "the reply carries the correlation id")
	switch kind {
	case verifReqUnknownMethod:
		verifAssert(rep.mtype == thrift.EXCEPTION && rep.appType == APPLICATION_EXCEPTION_UNKNOWN_METHOD, "unknown method -> UNKNOWN_METHOD exception")
		verifAssert(h.calls == callsBefore, "the handler did not run")
	case verifReqTruncatedArgs, verifReqWrongTypeArgs:
		if h.calls == callsBefore {
			verifAssert(rep.mtype == thrift.EXCEPTION && rep.appType == APPLICATION_EXCEPTION_PROTOCOL_ERROR, "undecodable arguments -> PROTOCOL_ERROR exception")
		}
	case verifReqKnown:
		verifAssert(h.calls == callsBefore+1 && h.args[len(h.args)-1] == arg, "the handler ran exactly once with the sent argument")
		verifAssert(rep.name == "ping", "reply names the method")
		switch outcome {
		case verifOutValue:
			verifAssert(rep.mtype == thrift.REPLY && rep.success != nil && *rep.success == "re:"+arg && rep.failure == nil, "success -> REPLY with the value")
		case verifOutDeclared:
			verifAssert(rep.mtype == thrift.REPLY && rep.failure != nil && rep.failure.msg == "d"+arg && rep.success == nil, "declared exception -> REPLY with the exception field")
		case verifOutUndeclared:
			verifAssert(rep.mtype == thrift.EXCEPTION && rep.appType == APPLICATION_EXCEPTION_INTERNAL_ERROR, "undeclared error -> INTERNAL_ERROR exception")
		case verifOutAppException:
			verifAssert(rep.mtype == thrift.EXCEPTION && rep.appType == appType, "application exception -> the handler's own type")
		}
	}
}

// (a) every request kind x handler outcome through FBaseProcessor.Process, twice
// in a row on the same processor (the second request must not be affected).
func VerifC14_ProcessorReplies() {
	h := &verifPingHandler{}
	proc := verifPingProcessor(h)
	pf := NewFProtocolFactory(thrift.NewTBinaryProtocolFactoryDefault())
	for round := 0; round < 2; round++ {
		kind := verifParam()
		if round == 1 {
			kind = verifReqKnown
		}
		outcome := verifChoice(verifOutcomes)
		appType := int32(verifRange(0, 200))
		h.outcome = verifOutcome(outcome, appType)
		arg := verifStr(verifChoice(verifBound() + 1))
		fctx := NewFContext("cid")
		in := verifRequestFrame(fctx, kind, arg)
		out := NewTMemoryOutputBuffer(0)
		calls := h.calls
		err := proc.Process(pf.GetProtocol(&thrift.TMemoryBuffer{Buffer: bytes.NewBuffer(in)}), pf.GetProtocol(out))
		_ = err
		var reply []byte
		if out.HasWriteData() {
			reply = out.Bytes()
		}
		if kind == verifReqTruncatedArgs && h.calls == calls && !out.HasWriteData() {
			// the frame ended inside the message header itself: nothing to answer to
			verifReach("undecodable-begin")
			continue
		}
		verifAssert(err == nil, "Process reports no error once the reply (or error reply) has been written")
		verifCheckReply(reply, fctx, kind, outcome, appType, arg, h, calls)
	}
	verifReach("end")
}

// (b) the simple server's per-connection loop: a bad request never prevents the next one from being answered.
func VerifC14_SimpleServerLoop() {
	h := &verifPingHandler{}
	proc := verifPingProcessor(h)
	srv := NewFSimpleServer(proc, nil, NewFProtocolFactory(thrift.NewTBinaryProtocolFactoryDefault()))
	pipe := newVerifPipe()
	pipe.Open()
	done := make(chan error, 1)
	go func() { done <- srv.accept(pipe) }()

	kind := verifParam()
	outcome := verifChoice(verifOutcomes)
	h.outcome = verifOutcome(outcome, 77)
	f1 := NewFContext("c1")
	req1 := verifRequestFrame(f1, kind, "a")
	pipe.feed(prependFrameSize(req1))
	// the second, well-formed request on the same connection
	f2 := NewFContext("c2")
	req2 := verifRequestFrame(f2, verifReqKnown, "b")
	pipe.feed(prependFrameSize(req2))
	pipe.hangUp(nil)
	<-done
	var all []byte
	for _, w := range pipe.written {
		all = append(all, w...)
	}
	var replies []verifReply
	for len(all) > 0 {
		rep, rest, ok := verifParseReply(all)
		verifAssert(ok, "the connection carries only well-formed reply frames")
		replies = append(replies, rep)
		all = rest
	}
	want := 2
	if kind == verifReqOneway && outcome == verifOutValue {
		want = 1
	}
	if kind == verifReqTruncatedArgs && len(replies) < want {
		// a frame that ends inside its argument struct makes the framed reader run on
		// into the next frame: the statement only protects later requests from unknown
		// methods and handler failures, so this is counted, not asserted
		verifReach("truncated-frame-consumed-next")
		return
	}
	// a complete frame whose arguments have the wrong type is answered with
	// PROTOCOL_ERROR and the connection keeps serving
	verifAssert(len(replies) == want, "one reply per two-way request")
	last := replies[len(replies)-1]
	verifAssert(last.opid == verifOpID(f2), "the later request is answered with its own op id")
	if outcome == verifOutValue {
		verifAssert(last.mtype == thrift.REPLY && last.success != nil && *last.success == "re:b", "the later request gets its value")
	}
	verifReach("end")
}

// verifLockedBuffer checks the lock discipline of a shared output transport.
type verifLockedBuffer struct {
	*TMemoryOutputBuffer
	mu *sync.Mutex
}

func (b *verifLockedBuffer) Write(p []byte) (int, error) {
	verifAssert(verifMutexHeld(b.mu), "every write to the shared output protocol holds the write mutex")
	return b.TMemoryOutputBuffer.Write(p)
}
func (b *verifLockedBuffer) WriteString(s string) (int, error) {
	verifAssert(verifMutexHeld(b.mu), "every write to the shared output protocol holds the write mutex")
	return b.TMemoryOutputBuffer.WriteString(s)
}
func (b *verifLockedBuffer) WriteByte(c byte) error {
	verifAssert(verifMutexHeld(b.mu), "every write to the shared output protocol holds the write mutex")
	return b.TMemoryOutputBuffer.WriteByte(c)
}
func (b *verifLockedBuffer) Flush(ctx context.Context) error {
	verifAssert(verifMutexHeld(b.mu), "every flush of the shared output protocol holds the write mutex")
	return b.TMemoryOutputBuffer.Flush(ctx)
}

// (c) two requests processed concurrently that share one output protocol: replies are never interleaved.
func VerifC14_ConcurrentReplies() {
	h := &verifPingHandler{}
	proc := verifPingProcessor(h)
	pf := NewFProtocolFactory(thrift.NewTBinaryProtocolFactoryDefault())
	shared := &verifLockedBuffer{NewTMemoryOutputBuffer(0), proc.GetWriteMutex()}
	oprot := pf.GetProtocol(shared)
	k1, k2 := verifParam()%verifReqKinds, verifChoice(2)*verifReqUnknownMethod
	o1, o2 := verifChoice(verifOutcomes), verifChoice(verifOutcomes)
	h.outcome = func(a string) (string, error) {
		if a == "a" {
			return verifOutcome(o1, 50)(a)
		}
		return verifOutcome(o2, 51)(a)
	}
	f1, f2 := NewFContext("c1"), NewFContext("c2")
	in1 := verifRequestFrame(f1, k1, "a")
	in2 := verifRequestFrame(f2, k2, "b")
	done := make(chan bool, 2)
	go func() {
		proc.Process(pf.GetProtocol(&thrift.TMemoryBuffer{Buffer: bytes.NewBuffer(in1)}), oprot)
		done <- true
	}()
	go func() {
		proc.Process(pf.GetProtocol(&thrift.TMemoryBuffer{Buffer: bytes.NewBuffer(in2)}), oprot)
		done <- true
	}()
	<-done
	<-done
	verifReach("end")
}
