package frugal

import (
	"errors"
	"strings"
	"time"

	"github.com/nats-io/nats.go"
)

// A contract model of nats.go, written in Go and executed symbolically like any
// other code. The engine redirects the un-interpretable methods of *nats.Conn
// and *nats.Subscription to the verifNats* functions below.
//
// Contract: a subscription has a pending queue and ONE dispatcher goroutine
// that calls the callback sequentially, in arrival order; Publish delivers to
// every subscription whose subject matches (exact, or "prefix.*" wildcard), one
// member per queue group; Unsubscribe stops delivery at once (pending messages
// are dropped); Drain stops intake and lets the pending messages be delivered;
// Flush returns once the server has seen everything sent before (in particular
// an UNSUB: until then messages of other connections may still arrive); Barrier(f)
// runs f after every message pending at the call has been handed to its
// callback. With lazySub set, a SUB is asynchronous as in nats.go: QueueSubscribe only
// buffers it, the server knows the subscription soon (the client's flusher) or at the
// latest after a Flush round trip on that connection; until then messages published by
// OTHER connections are not routed to it (a publish on the same connection is ordered
// after the SUB by TCP). With foreignPublisher set, publishes through the harness's one
// *nats.Conn value count as coming from another connection.

type verifPub struct {
	subject, reply string
	data           []byte
	foreign        bool // published by another connection than the subscriber's
}

type verifNatsSub struct {
	handle    *nats.Subscription
	subject   string
	queue     string
	cb        nats.MsgHandler
	pending   []*nats.Msg
	stop      bool
	enq       int
	delivered int
	closed    bool
	draining  bool // Drain was called
	unknown   bool // lazySub: the server has not processed the SUB yet
	intakeOff bool // the server has processed the UNSUB: nothing new arrives
	wake      chan struct{}
}

type verifNatsBroker struct {
	subs             []*verifNatsSub
	published        []verifPub
	status           nats.Status
	failPublish      bool
	stallFlush       bool // PING is never answered
	lazySub          bool
	foreignPublisher bool
	onPublish        func(p verifPub)
}

var verifBroker *verifNatsBroker

func newVerifBroker() *verifNatsBroker {
	verifBroker = &verifNatsBroker{status: nats.CONNECTED}
	return verifBroker
}

func verifSubjectMatch(pattern, subject string) bool {
	if pattern == subject {
		return true
	}
	if strings.HasSuffix(pattern, ".*") {
		p := pattern[:len(pattern)-1]
		return strings.HasPrefix(subject, p) && !strings.Contains(subject[len(p):], ".")
	}
	return false
}

func (b *verifNatsBroker) deliver(p verifPub) {
	groups := map[string]bool{}
	for _, s := range b.subs {
		if s.closed || s.intakeOff || !verifSubjectMatch(s.subject, p.subject) {
			continue
		}
		if s.unknown {
			if p.foreign {
				verifReach("nats-published-before-sub-reached-the-server")
				continue
			}
			s.unknown = false // same connection: the SUB was written before this PUB
		}
		if s.queue != "" {
			if groups[s.queue+"|"+s.subject] {
				continue
			}
			groups[s.queue+"|"+s.subject] = true
		}
		s.enq++
		s.pending = append(s.pending, &nats.Msg{Subject: p.subject, Reply: p.reply, Data: p.data, Sub: s.handle})
	}
}

// inject delivers a message as if some other client had published it.
func (b *verifNatsBroker) inject(subject, reply string, data []byte) {
	b.deliver(verifPub{subject, reply, data, true})
}

func (s *verifNatsSub) dispatch() {
	for {
		verifBlockUntil(func() bool { return len(s.pending) > 0 || (s.stop && (s.closed || s.intakeOff)) })
		if len(s.pending) == 0 {
			return
		}
		msg := s.pending[0]
		s.pending = s.pending[1:]
		if !s.closed {
			s.cb(msg)
		}
		s.delivered++
	}
}

func verifNatsStatus(c *nats.Conn) nats.Status { return verifBroker.status }

func verifNatsPublish(c *nats.Conn, subj string, data []byte) error {
	return verifNatsPublishRequest(c, subj, "", data)
}

func verifNatsPublishRequest(c *nats.Conn, subj, reply string, data []byte) error {
	b := verifBroker
	if b.failPublish {
		return errors.New("verif: nats publish failed")
	}
	p := verifPub{subj, reply, append([]byte{}, data...), b.foreignPublisher}
	b.published = append(b.published, p)
	b.deliver(p)
	if b.onPublish != nil {
		b.onPublish(p)
	}
	return nil
}

func verifNatsSubscribe(c *nats.Conn, subj string, cb nats.MsgHandler) (*nats.Subscription, error) {
	return verifNatsQueueSubscribe(c, subj, "", cb)
}

func verifNatsQueueSubscribe(c *nats.Conn, subj, queue string, cb nats.MsgHandler) (*nats.Subscription, error) {
	s := &verifNatsSub{handle: &nats.Subscription{Subject: subj, Queue: queue}, subject: subj, queue: queue, cb: cb}
	if verifBroker.lazySub && verifChoice(2) == 1 {
		s.unknown = true
	}
	verifBroker.subs = append(verifBroker.subs, s)
	go s.dispatch()
	return s.handle, nil
}

// channel subscriptions: nats.go hands a message to the channel with a non-blocking
// send and DROPS it (slow consumer) when the channel is full
func verifNatsChanQueueSubscribe(c *nats.Conn, subj, queue string, ch chan *nats.Msg) (*nats.Subscription, error) {
	return verifNatsQueueSubscribe(c, subj, queue, func(m *nats.Msg) {
		select {
		case ch <- m:
		default:
			verifReach("nats-slow-consumer-drop")
		}
	})
}

func verifNatsChanSubscribe(c *nats.Conn, subj string, ch chan *nats.Msg) (*nats.Subscription, error) {
	return verifNatsChanQueueSubscribe(c, subj, "", ch)
}

func verifFindSub(h *nats.Subscription) *verifNatsSub {
	for _, s := range verifBroker.subs {
		if s.handle == h {
			return s
		}
	}
	return nil
}

func verifNatsUnsubscribe(h *nats.Subscription) error {
	s := verifFindSub(h)
	if s == nil || s.closed {
		return nats.ErrBadSubscription
	}
	s.closed = true
	s.stop = true
	return nil
}

func verifNatsDrain(h *nats.Subscription) error {
	s := verifFindSub(h)
	if s == nil || s.closed {
		return nats.ErrBadSubscription
	}
	// What is pending is still delivered. New messages stop arriving once the server has
	// processed the UNSUB: either soon by itself (the client's asynchronous flusher) or, at
	// the latest, when the caller waits for a Flush round trip.
	s.draining = true
	s.stop = true
	if verifChoice(2) == 0 {
		s.intakeOff = true
	}
	return nil
}

func verifNatsSubIsValid(h *nats.Subscription) bool {
	s := verifFindSub(h)
	return s != nil && !s.closed
}

func verifNatsFlush(c *nats.Conn) error {
	if verifBroker.stallFlush {
		// the server accepts writes but stops answering PING: Flush() gives up after
		// nats.go's own default of 10 s, whatever the caller's deadline is
		verifRealSleep(10 * time.Second)
		return nats.ErrTimeout
	}
	for _, s := range verifBroker.subs {
		if s.draining || s.closed {
			s.intakeOff = true
		}
		s.unknown = false
	}
	return nil
}
func verifNatsFlushTimeout(c *nats.Conn, d time.Duration) error {
	if verifBroker.stallFlush {
		verifRealSleep(d)
		return nats.ErrTimeout
	}
	return verifNatsFlush(c)
}

func verifNatsBarrier(c *nats.Conn, f func()) error {
	type mark struct {
		s *verifNatsSub
		n int
	}
	var marks []mark
	for _, s := range verifBroker.subs {
		marks = append(marks, mark{s, s.enq})
	}
	go func() {
		for _, m := range marks {
			m := m
			verifBlockUntil(func() bool { return m.s.delivered >= m.n })
		}
		f()
	}()
	return nil
}

func verifNatsNewInbox(c *nats.Conn) string { return "_INBOX.verif" }
func verifNatsNewInbox0() string            { return "_INBOX.verif" }
func verifNuidNext() string                 { return "nuid0" }
