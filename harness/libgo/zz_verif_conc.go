package frugal

import (
	"bytes"
	"sync"

	"github.com/nats-io/nats.go"

	"github.com/apache/thrift/lib/go/thrift"
)

// Two goroutines sharing one client (publisher / RPC): every message reaches the
// transport intact, whatever the interleaving between serialisation and hand-over.

func init() {
	verifHarnesses["VerifC07_ConcurrentPublish"] = VerifC07_ConcurrentPublish
	verifHarnesses["VerifC01_ConcurrentCalls"] = VerifC01_ConcurrentCalls
}

// verifSlowPublisher looks at the payload only after a scheduling point, like a
// transport that has to wait for its turn on a shared connection.
type verifSlowPublisher struct {
	mu     sync.Mutex
	frames [][]byte
	topics []string
}

func (p *verifSlowPublisher) Open() error               { return nil }
func (p *verifSlowPublisher) Close() error              { return nil }
func (p *verifSlowPublisher) IsOpen() bool              { return true }
func (p *verifSlowPublisher) GetPublishSizeLimit() uint { return 0 }
func (p *verifSlowPublisher) Publish(topic string, data []byte) error {
	verifYield("publisher waits for the connection")
	p.mu.Lock()
	p.frames = append(p.frames, append([]byte{}, data...))
	p.topics = append(p.topics, topic)
	p.mu.Unlock()
	return nil
}

func VerifC07_ConcurrentPublish() {
	pf := NewFProtocolFactory(thrift.NewTBinaryProtocolFactoryDefault())
	pub := &verifSlowPublisher{}
	client := NewFScopeClient(NewFScopeProvider(verifPubFactory{pub}, nil, pf))
	done := make(chan error, 2)
	b1, b2 := verifStr(1), verifStr(1) // arbitrary, different message bodies
	verifAssume(b1 != b2)
	for _, body := range []string{b1, b2} {
		body := body
		go func() {
			ctx := NewFContext("cid-" + body)
			ctx.AddRequestHeader("h", body)
			done <- client.Publish(ctx, "op", "t-"+body, &verifMsg{a: body, b: "y", c: "z"})
		}()
	}
	verifAssert(<-done == nil, "publish")
	verifAssert(<-done == nil, "publish")
	verifAssert(len(pub.frames) == 2, "two messages reached the transport")
	seen := map[string]bool{}
	for i, f := range pub.frames {
		var got []verifDelivery
		cb := verifRecv(pf, "op", func(ctx FContext, m *verifMsg) error {
			h, _ := ctx.RequestHeader("h")
			got = append(got, verifDelivery{m.a, h, ctx.CorrelationID()})
			return nil
		})
		verifAssert(len(f) >= 4 && cb(&thrift.TMemoryBuffer{Buffer: bytes.NewBuffer(f[4:])}) == nil && len(got) == 1, "every published frame decodes")
		verifAssert("t-"+got[0].body == pub.topics[i], "the frame published to a topic is the message meant for it")
		verifAssert(got[0].hdr == got[0].body && got[0].cid == "cid-"+got[0].body, "with its own headers")
		seen[got[0].body] = true
	}
	verifAssert(seen[b1] && seen[b2], "both messages arrive, neither twice")
	verifReach("end")
}

type verifPubFactory struct{ p FPublisherTransport }

func (f verifPubFactory) GetTransport() FPublisherTransport { return f.p }

// verifSlowLoop is a request/response transport that looks at the payload only after a
// scheduling point and answers through the processor.
type verifSlowLoop struct {
	proc FProcessor
	pf   *FProtocolFactory
}

func (l *verifSlowLoop) Request(ctx FContext, payload []byte) (thrift.TTransport, error) {
	verifYield("transport waits for the connection")
	out := NewTMemoryOutputBuffer(0)
	in := &thrift.TMemoryBuffer{Buffer: bytes.NewBuffer(append([]byte{}, payload[4:]...))}
	if err := l.proc.Process(l.pf.GetProtocol(in), l.pf.GetProtocol(out)); err != nil {
		return nil, err
	}
	return &thrift.TMemoryBuffer{Buffer: bytes.NewBuffer(out.Bytes()[4:])}, nil
}
func (l *verifSlowLoop) Oneway(ctx FContext, payload []byte) error {
	_, err := l.Request(ctx, payload)
	return err
}
func (l *verifSlowLoop) Open() error                  { return nil }
func (l *verifSlowLoop) Close() error                 { return nil }
func (l *verifSlowLoop) IsOpen() bool                 { return true }
func (l *verifSlowLoop) Closed() <-chan error         { return nil }
func (l *verifSlowLoop) SetMonitor(FTransportMonitor) {}
func (l *verifSlowLoop) GetRequestSizeLimit() uint    { return 0 }

// two concurrent calls through one FStandardClient: each caller gets the answer to
// its own request and the handler sees each argument exactly once
func VerifC01_ConcurrentCalls() {
	pf := NewFProtocolFactory(thrift.NewTBinaryProtocolFactoryDefault())
	var hmu sync.Mutex
	var args []string
	h := &verifPingHandler{}
	type seen struct{ cid, who, arg string }
	var cur seen
	var recs []seen
	h.onCall = func(c FContext) {
		// both reads are thread-local; the record is published after the last scheduling point
		cid := c.CorrelationID()
		who, _ := c.RequestHeader("who")
		cur = seen{cid: cid, who: who}
	}
	h.outcome = func(a string) (string, error) {
		recs = append(recs, seen{cur.cid, cur.who, a})
		return "re:" + a, nil
	}
	proc := verifPingProcessor(h, func(next InvocationHandler) InvocationHandler { return next })
	_ = hmu
	client := NewFStandardClient(NewFServiceProvider(&verifSlowLoop{proc: proc, pf: pf}, pf))
	type res struct {
		arg, got string
		err      error
	}
	done := make(chan res, 2)
	a1, a2 := verifStr(1), verifStr(1) // arbitrary, different arguments
	verifAssume(a1 != a2)
	for _, a := range []string{a1, a2} {
		a := a
		go func() {
			r := &verifPingResult{}
			fc := NewFContext("cid-" + a)
			fc.AddRequestHeader("who", a)
			err := client.Call(fc, "ping", &verifMsg{a: a, b: "y", c: "z"}, r)
			g := ""
			if r.success != nil {
				g = *r.success
			}
			done <- res{a, g, err}
		}()
	}
	for i := 0; i < 2; i++ {
		r := <-done
		verifAssert(r.err == nil && r.got == "re:"+r.arg, "each caller receives the answer to its own request")
	}
	args = h.args
	verifAssert(len(args) == 2 && args[0] != args[1], "the handler ran once per request, with each argument once")
	for _, r := range recs {
		verifAssert(r.cid == "cid-"+r.arg && r.who == r.arg, "each handler invocation sees the correlation id and the request header of the call that carries its argument")
	}
	verifReach("end")
}

func init() {
	verifHarnesses["VerifC07_Backlog"] = VerifC07_Backlog
}

// a backlog larger than the subscriber's work queue (64 slots + one worker; handler
// slower than the publisher): nothing is dropped, order is kept
func VerifC07_Backlog() {
	newVerifBroker()
	pf := NewFProtocolFactory(thrift.NewTBinaryProtocolFactoryDefault())
	conn := &nats.Conn{}
	factory := NewFNatsSubscriberFactoryBuilder(conn).WithQueueLength(uint(1 + verifChoice(2))).Build()
	var log []string
	sub := factory.GetTransport()
	verifAssert(sub.Subscribe("alpha", verifRecv(pf, "op", func(ctx FContext, m *verifMsg) error {
		verifYield("slow handler")
		log = append(log, m.a)
		return nil
	})) == nil, "subscribe")
	pub := NewFNatsPublisherTransportFactory(conn).GetTransport()
	client := &FStandardClient{publisher: pub, protocolFactory: pf, limit: pub.GetPublishSizeLimit()}
	n := 3
	if verifParam() > 0 {
		n = defaultWorkQueueLen + 3 + verifChoice(2)
		verifReach("backlog-exceeds-queue")
	}
	for i := 0; i < n; i++ {
		verifAssert(client.Publish(NewFContext("c"), "op", "alpha", &verifMsg{a: string(rune('a' + i))}) == nil, "publish")
	}
	verifBlockUntil(func() bool { return len(log) >= n }) // a dropped message is a deadlock here
	for i := range log {
		verifAssert(log[i] == string(rune('a'+i)), "delivered in publish order")
	}
	verifAssert(sub.Unsubscribe() == nil, "unsubscribe")
	verifReach("end")
}
