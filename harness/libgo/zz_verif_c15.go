package frugal

import (
	"errors"
	"time"

	"github.com/apache/thrift/lib/go/thrift"
	"github.com/nats-io/nats.go"
)

// C15: transport failure is detected, reported once and recoverable, repeatedly.

func init() {
	verifHarnesses["VerifC15_Lifecycle"] = VerifC15_Lifecycle
	verifHarnesses["VerifC15_Monitored"] = VerifC15_Monitored
	verifHarnesses["VerifC15_ReopenPolicy"] = VerifC15_ReopenPolicy
}

func verifIsTransportErr(err error, typ int) bool {
	te, ok := err.(thrift.TTransportException)
	return ok && te.TypeId() == typ
}

// verifBreak makes the current connection fail in one of the ways a byte
// stream can end; it returns whether a nil close cause is acceptable.
func verifBreak(pipe *verifPipe, ft FTransport) (cleanOK bool, mustBeNil bool) {
	switch verifChoice(5) {
	case 0: // clean EOF at a frame boundary (possibly after a whole frame for nobody)
		if verifChoice(2) == 1 {
			pipe.feed(verifResponseFrame("777", []byte{1}))
		}
		pipe.hangUp(nil)
		verifReach("eof-boundary")
		return true, false
	case 1: // EOF inside a frame: cut at any byte offset
		fr := verifResponseFrame("777", []byte{1, 2, 3})
		// inside the size prefix, right after it, inside the headers, one byte short
		cuts := []int{1, 3, 4, 5, len(fr) / 2, len(fr) - 1}
		cut := cuts[verifChoice(len(cuts))]
		if verifBound() > 0 {
			cut = 1 + verifChoice(len(fr)-1) // thorough: every byte offset
		}
		pipe.feed(fr[:cut])
		pipe.hangUp(nil)
		verifReach("eof-inside-frame")
		return true, false
	case 2: // read error
		pipe.hangUp(errors.New("verif: connection reset"))
		verifReach("read-error")
		return false, false
	case 3: // a frame the client cannot process (bad op id): unrecoverable, closes with a cause
		pipe.feed(verifResponseFrame("x", []byte{1}))
		verifReach("bad-frame")
		return false, false
	default: // the user closes
		verifAssert(ft.Close() == nil, "Close of an open transport succeeds")
		verifReach("user-close")
		return true, true
	}
}

// (a) open / fail / reopen / fail ... : each generation ends closed, with exactly one close cause.
func VerifC15_Lifecycle() {
	pipe := newVerifPipe()
	ft := NewAdapterTransport(pipe)
	verifAssert(verifIsTransportErr(ft.Close(), TRANSPORT_EXCEPTION_NOT_OPEN), "Close before Open reports NOT_OPEN")
	gens := 2 + verifParam()
	for g := 0; g < gens; g++ {
		verifAssert(ft.Open() == nil, "Open of a closed transport succeeds")
		verifAssert(ft.IsOpen(), "IsOpen after Open")
		verifAssert(verifIsTransportErr(ft.Open(), TRANSPORT_EXCEPTION_ALREADY_OPEN), "Open of an open transport reports ALREADY_OPEN")
		closed := ft.Closed()
		cleanOK, mustBeNil := verifBreak(pipe, ft)
		cause, ok := <-closed // a failure that is never reported shows up as a deadlock here
		verifAssert(ok, "one close cause is published")
		if mustBeNil {
			verifAssert(cause == nil, "a user close has a nil cause")
		}
		if !cleanOK {
			verifAssert(cause != nil, "a failure is reported with its cause")
		}
		_, again := <-closed
		verifAssert(!again, "exactly one close cause, then the channel is closed")
		verifAssert(!ft.IsOpen(), "the transport is closed after the stream ended")
		verifAssert(verifIsTransportErr(ft.Close(), TRANSPORT_EXCEPTION_NOT_OPEN), "Close of a closed transport reports NOT_OPEN")
		if g > 0 {
			verifReach("second-generation")
		}
	}
	verifAssert(ft.Open() == nil, "reopen after repeated failures")
	verifAssert(ft.Close() == nil, "final close")
	verifAssert(!ft.IsOpen(), "closed at the end")
	verifReach("end")
}

// verifMonitor reopens immediately and reports every callback.
type verifMonitor struct {
	events chan string
}

func (m *verifMonitor) OnClosedCleanly() { m.events <- "clean" }
func (m *verifMonitor) OnClosedUncleanly(cause error) (bool, time.Duration) {
	m.events <- "unclean"
	return true, 0
}
func (m *verifMonitor) OnReopenFailed(prevAttempts uint, prevWait time.Duration) (bool, time.Duration) {
	m.events <- "reopen-failed"
	return prevAttempts < 2, 0
}
func (m *verifMonitor) OnReopenSucceeded() { m.events <- "reopened" }

// (b) with a monitor attached: every unclean close is notified and followed by a reopen, repeatedly.
func VerifC15_Monitored() {
	pipe := newVerifPipe()
	ft := NewAdapterTransport(pipe)
	mon := &verifMonitor{events: make(chan string, 16)}
	ft.SetMonitor(mon)
	verifAssert(ft.Open() == nil, "open")
	fails := 2 + verifParam()
	for i := 0; i < fails; i++ {
		if verifChoice(2) == 0 {
			pipe.hangUp(errors.New("verif: connection reset"))
		} else {
			pipe.feed(verifResponseFrame("x", []byte{1}))
		}
		verifAssert(<-mon.events == "unclean", "the monitor is told about every unclean close")
		verifAssert(<-mon.events == "reopened", "and the transport is reopened")
		verifAssert(ft.IsOpen(), "open again after the monitor reopened it")
		if i > 0 {
			verifReach("second-failure-notified")
		}
	}
	verifAssert(ft.Close() == nil, "user close")
	verifAssert(<-mon.events == "clean", "the monitor is told about the clean close")
	verifReach("end")
}

// verifFlakyTransport fails Open a number of times.
type verifFlakyTransport struct {
	FTransport
	failures int
	opens    int
	isOpen   bool
}

func (t *verifFlakyTransport) Open() error {
	t.opens++
	if t.failures > 0 {
		t.failures--
		return errors.New("verif: cannot connect")
	}
	t.isOpen = true
	return nil
}
func (t *verifFlakyTransport) IsOpen() bool { return t.isOpen }

var verifSleepLog *[]time.Duration

// redirect target for time.Sleep: sequential harnesses log the waits.
func verifTimeSleep(d time.Duration) {
	if verifSleepLog != nil {
		*verifSleepLog = append(*verifSleepLog, d)
		return
	}
	verifRealSleep(d)
}

// (c) the reopen policy of the default monitor: bounded attempts, bounded waits.
func VerifC15_ReopenPolicy() {
	maxAttempts := uint(verifChoice(4))
	initial := time.Duration(verifNondetI64())
	maxWait := time.Duration(verifNondetI64())
	verifAssume(initial >= 0 && initial <= maxWait && maxWait <= time.Duration(1)<<55)
	mon := &BaseFTransportMonitor{MaxReopenAttempts: maxAttempts, InitialWait: initial, MaxWait: maxWait}
	tr := &verifFlakyTransport{failures: verifChoice(5)}
	planned := tr.failures
	var waits []time.Duration
	verifSleepLog = &waits
	r := &monitorRunner{monitor: mon, transport: tr}
	ok := r.handleUncleanClose(errors.New("verif: broken"))
	verifSleepLog = nil
	if maxAttempts == 0 {
		verifAssert(!ok && tr.opens == 0, "no attempt when the policy allows none")
	} else {
		verifAssert(uint(tr.opens) <= maxAttempts+0 || planned < int(maxAttempts), "at most the configured number of attempts")
		verifAssert(uint(tr.opens) <= maxAttempts, "attempts never exceed MaxReopenAttempts")
		verifAssert(ok == (planned < int(maxAttempts)), "reopen succeeds iff an attempt within the budget succeeds")
		verifAssert(ok == tr.isOpen, "success means the transport is open")
	}
	for _, w := range waits {
		verifAssert(w <= maxWait, "no wait above the configured maximum")
		verifAssert(w >= 0, "no negative wait")
	}
	verifAssert(len(waits) == tr.opens, "one wait per attempt")
	verifReach("end")
}

func init() {
	verifHarnesses["VerifC15_RepeatedOutages"] = VerifC15_RepeatedOutages
}

// verifPolicyMonitor is the default policy with event reporting.
type verifPolicyMonitor struct {
	BaseFTransportMonitor
	events chan string
}

func (m *verifPolicyMonitor) OnClosedUncleanly(cause error) (bool, time.Duration) {
	m.events <- "unclean"
	return m.BaseFTransportMonitor.OnClosedUncleanly(cause)
}
func (m *verifPolicyMonitor) OnReopenFailed(prev uint, wait time.Duration) (bool, time.Duration) {
	m.events <- "reopen-failed"
	return m.BaseFTransportMonitor.OnReopenFailed(prev, wait)
}
func (m *verifPolicyMonitor) OnReopenSucceeded() { m.events <- "reopened" }
func (m *verifPolicyMonitor) OnClosedCleanly()   { m.events <- "clean" }

// (d) several outages under a bounded policy: every outage gets the full
// budget of reopen attempts again ("reopens as often as the monitor policy allows").
func VerifC15_RepeatedOutages() {
	pipe := newVerifPipe()
	ft := NewAdapterTransport(pipe)
	budget := uint(1 + verifChoice(2))
	mon := &verifPolicyMonitor{BaseFTransportMonitor{MaxReopenAttempts: budget, InitialWait: 0, MaxWait: 0}, make(chan string, 32)}
	ft.SetMonitor(mon)
	verifAssert(ft.Open() == nil, "open")
	outages := 2 + verifParam()
	for i := 0; i < outages; i++ {
		// the first `refused` reopen attempts of this outage are refused, the next one succeeds
		refused := verifChoice(int(budget) + 1)
		pipe.failOpens = refused
		pipe.hangUp(errors.New("verif: connection reset"))
		verifAssert(<-mon.events == "unclean", "every outage is notified")
		for j := 0; j < refused; j++ {
			verifAssert(<-mon.events == "reopen-failed", "a refused attempt is reported")
		}
		if refused < int(budget) {
			verifAssert(<-mon.events == "reopened", "an attempt within the budget of THIS outage succeeds")
			verifAssert(ft.IsOpen(), "open again")
			if i > 0 && refused > 0 {
				verifReach("later-outage-with-refusals")
			}
		} else {
			verifReach("budget-exhausted")
			verifAssert(!ft.IsOpen(), "closed for good once the budget of this outage is used up")
			verifReach("end")
			return
		}
	}
	verifReach("end")
}

func init() {
	verifHarnesses["VerifC15_ConcurrentOpen"] = VerifC15_ConcurrentOpen
	verifHarnesses["VerifC15_NatsOutage"] = VerifC15_NatsOutage
}

// verifSlowDial is a pipe whose Open takes a while (a scheduling point inside the dial).
type verifSlowDial struct {
	*verifPipe
	dialing int
}

func (p *verifSlowDial) Open() error {
	if p.verifPipe.open {
		return thrift.NewTTransportException(thrift.ALREADY_OPEN, "already open")
	}
	p.dialing++
	verifYield("dialing")
	return p.verifPipe.Open()
}

// Two goroutines call Open on one adapter transport at the same time (the
// application and a monitor's reopen): exactly one opens the connection, the other
// is told ALREADY_OPEN; one connection means one reader and one close notification.
func VerifC15_ConcurrentOpen() {
	base := newVerifPipe()
	ft := NewAdapterTransport(&verifSlowDial{verifPipe: base}).(*fAdapterTransport)
	res := make(chan error, 2)
	for i := 0; i < 2; i++ {
		go func() { res <- ft.Open() }()
	}
	e1, e2 := <-res, <-res
	okCount, alreadyCount := 0, 0
	for _, e := range []error{e1, e2} {
		if e == nil {
			okCount++
		} else if verifIsTransportErr(e, TRANSPORT_EXCEPTION_ALREADY_OPEN) {
			alreadyCount++
		}
	}
	verifAssert(okCount == 1 && alreadyCount == 1, "of two simultaneous Open calls one succeeds and the other reports ALREADY_OPEN")
	verifAssert(ft.IsOpen(), "the transport is open")
	closed := ft.Closed()
	base.hangUp(nil)
	_, ok := <-closed
	verifAssert(ok, "the end of the connection is published on the channel handed out after Open")
	verifAssert(!ft.IsOpen(), "and the transport is closed")
	verifAssert(verifIsTransportErr(ft.Close(), TRANSPORT_EXCEPTION_NOT_OPEN), "Close on a closed transport reports NOT_OPEN")
	verifReach("end")
}

// NATS client transport across a connection outage: Close while NATS is reconnecting
// really closes (unsubscribes, publishes the cause), so that after the outage the
// transport is closed and can be opened again.
func VerifC15_NatsOutage() {
	b := newVerifBroker()
	tr := NewFNatsTransport(&nats.Conn{}, "svc", "_INBOX.c").(*fNatsTransport)
	verifAssert(tr.Open() == nil, "open")
	closed := tr.Closed()
	if verifParam() == 1 {
		b.status = nats.RECONNECTING
		verifReach("close-during-outage")
	}
	verifAssert(tr.Close() == nil, "Close")
	b.status = nats.CONNECTED
	select {
	case cause, ok := <-closed:
		verifAssert(ok && cause == nil, "a user Close publishes the nil cause")
	default:
		verifFail("Close returned without publishing the close cause")
	}
	verifAssert(!tr.IsOpen(), "the transport is closed once NATS is back")
	live := 0
	for _, s := range b.subs {
		if !s.closed {
			live++
		}
	}
	verifAssert(live == 0, "the inbox subscription is gone")
	verifAssert(tr.Open() == nil && tr.IsOpen(), "and the transport opens again")
	verifAssert(tr.Close() == nil, "second Close")
	verifReach("end")
}

func init() {
	verifHarnesses["VerifC15_FailedCloseThenFailure"] = VerifC15_FailedCloseThenFailure
}

// A Close whose underlying Close fails leaves the transport open (and says so); the
// NEXT real failure of the stream on that connection is then detected, published
// exactly once and the transport ends closed - a failed Close must not leave anything
// behind that makes a later failure look like a requested close.
func VerifC15_FailedCloseThenFailure() {
	pipe := newVerifPipe()
	ft := NewAdapterTransport(pipe).(*fAdapterTransport)
	mon := &verifMonitor{events: make(chan string, 8)}
	if verifParam() == 1 {
		ft.SetMonitor(mon)
	}
	verifAssert(ft.Open() == nil, "open")
	closed := ft.Closed()
	pipe.failClose = true
	verifAssert(ft.Close() != nil, "a Close whose underlying Close fails reports the error")
	verifAssert(ft.IsOpen(), "and the transport is still open")
	pipe.failClose = false
	// now the stream really breaks
	cause := errors.New("verif: connection reset")
	if verifChoice(2) == 0 {
		pipe.hangUp(cause)
	} else {
		pipe.hangUp(nil) // EOF
	}
	got, ok := <-closed // an undetected failure is a deadlock here
	verifAssert(ok && got != nil, "the stream failure is published with a non-nil cause")
	if verifParam() == 1 {
		verifAssert(<-mon.events == "unclean", "and the monitor is told about the unclean close")
	} else {
		verifAssert(!ft.IsOpen(), "the transport ends closed")
	}
	verifReach("end")
}
