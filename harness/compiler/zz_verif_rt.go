package compiler

// Harness run-time. The functions marked "intrinsic" are intercepted by the
// gose engine (their bodies are used only when a harness is compiled natively
// to replay a counterexample vector).

import (
	"encoding/json"
	"fmt"
	"os"
	"time"
)

var (
	verifVec     []uint64
	verifPos     int
	verifLoaded  bool
	verifTrace   []string
	verifReached = map[string]bool{}
)

type verifViolation struct{ label string }
type verifSkip struct{}

func verifLoad() {
	if verifLoaded {
		return
	}
	verifLoaded = true
	if p := os.Getenv("VERIF_REPLAY"); p != "" {
		b, err := os.ReadFile(p)
		if err != nil {
			panic(err)
		}
		var v struct {
			Vector []uint64 `json:"vector"`
		}
		if err := json.Unmarshal(b, &v); err != nil {
			panic(err)
		}
		verifVec = v.Vector
	}
}

// intrinsic: a fresh 64-bit value.
func verifNondetRaw() uint64 {
	verifLoad()
	var v uint64
	if verifPos < len(verifVec) {
		v = verifVec[verifPos]
	}
	verifPos++
	return v
}

// intrinsic: constrain the path.
func verifAssume(c bool) {
	if !c {
		panic(verifSkip{})
	}
}

// intrinsic: the property.
func verifAssert(c bool, label string) {
	if !c {
		panic(verifViolation{label})
	}
}

// intrinsic: unconditional failure (used by verifNoPanic).
func verifFail(label string) {
	panic(verifViolation{label})
}

// intrinsic: coverage label.
func verifReach(label string) { verifReached[label] = true }

// intrinsic: fork over every feasible value of x.
func verifConcretize(x uint64) uint64 { return x }

// intrinsic: explore every iteration order of map m.
func verifMapOrder(m interface{}) {}

// intrinsic: ghost log.
func verifLog(s string) { verifTrace = append(verifTrace, s) }

// intrinsic: does the value contain symbolic parts (always false natively).
func verifSymbolic(v interface{}) bool { return false }

// intrinsic: scheduling point.
func verifYield(point string) {}

func verifNondetU8() uint8   { return uint8(verifNondetRaw()) }
func verifNondetU16() uint16 { return uint16(verifNondetRaw()) }
func verifNondetU32() uint32 { return uint32(verifNondetRaw()) }
func verifNondetI32() int32  { return int32(verifNondetRaw()) }
func verifNondetU64() uint64 { return verifNondetRaw() }
func verifNondetI64() int64  { return int64(verifNondetRaw()) }
func verifNondetBool() bool  { return verifNondetRaw()&1 == 1 }

// verifChoice returns a concrete value in [0,n): the engine forks n ways.
func verifChoice(n int) int {
	v := verifNondetRaw()
	verifAssume(v < uint64(n))
	return int(verifConcretize(v))
}

// verifRange returns a symbolic value in [lo,hi] without forking.
func verifRange(lo, hi int) int {
	v := int(verifNondetRaw())
	verifAssume(v >= lo && v <= hi)
	return v
}

// verifBytes returns n arbitrary bytes in a slice with the given spare capacity.
func verifBytes(n, spare int) []byte {
	b := make([]byte, n+spare)
	for i := range b {
		b[i] = verifNondetU8()
	}
	return b[:n]
}

// verifStr returns an arbitrary string of exactly n bytes.
func verifStr(n int) string { return string(verifBytes(n, 0)) }

// verifNoPanic asserts that no panic escapes f.
func verifNoPanic(label string, f func()) {
	defer func() {
		if r := recover(); r != nil {
			switch r.(type) {
			case verifViolation, verifSkip:
				panic(r)
			}
			verifLastPanic = fmt.Sprint(r)
			verifFail(label)
		}
	}()
	f()
}

var verifLastPanic string

var verifHarnesses = map[string]func(){}

var verifParamV, verifBoundV int

// intrinsic: the -param value of the engine invocation (splits an entry over processes).
func verifParam() int { return verifParamV }

// intrinsic: the -bound value of the engine invocation (tier-dependent size bound).
func verifBound() int { return verifBoundV }

// intrinsic: make m (a map[K]chan T) an arbitrary unknown map (see engine).
func verifHavocChanMap(m interface{}, filler interface{}) {}

// intrinsic: is a thread whose function name contains name blocked on an operation containing op.
func verifThreadBlockedOn(name, op string) bool { return false }

// intrinsic: number of buffered elements of channel c.
func verifChanLen(c interface{}) int { return 0 }

// intrinsic: every access to map m must happen with mutex mu held (lock discipline).
func verifGuard(m interface{}, mu interface{}, name string) {}

// intrinsic: the cell at p may only be accessed through sync/atomic while other goroutines run.
func verifWatch(p interface{}, name string) {}

// intrinsic: the engine's virtual-time sleep.
func verifRealSleep(d time.Duration) { time.Sleep(d) }

// intrinsic: park until cond() holds (cond must be side-effect free and must not block).
func verifBlockUntil(cond func() bool) {
	for !cond() {
		time.Sleep(time.Microsecond)
	}
}

// intrinsic: is the mutex at p write-locked right now.
func verifMutexHeld(p interface{}) bool { return true }

// intrinsic: virtual time passes (natively: nothing).
func verifAdvanceClock(d time.Duration) {}
