package compiler

import "github.com/Workiva/frugal/compiler/parser"

// C19 "whatever ... the working directory": what Compile hands to the parser (and what therefore becomes
// Frugal.File / Frugal.Dir / the include search root, which the generators use for ordering and for
// locating includes) must not depend on the directory the compiler was started from nor on the spelling of
// the path. 2-safety by self-composition: the real Compile is executed twice for the SAME file, each time
// with another (working directory, path spelling); the file system, the parser and the generators are
// outside (os.Getwd, exists, parser.ParseFrugal and generateFrugal are harness functions that record).

func init() {
	verifHarnesses["VerifC19_CompilePath"] = VerifC19_CompilePath
}

var (
	verifCwd       string
	verifParsed    []string
	verifGenerated []*parser.Frugal
)

func verifGetwd() (string, error)  { return verifCwd, nil }
func verifExists(path string) bool { return true }
func verifParseFrugal(file string) (*parser.Frugal, error) {
	verifParsed = append(verifParsed, file)
	return &parser.Frugal{Name: "main", File: file, ParsedIncludes: map[string]*parser.Frugal{}}, nil
}
func verifGenerateFrugal(f *parser.Frugal) error {
	verifGenerated = append(verifGenerated, f)
	return nil
}

func VerifC19_CompilePath() {
	// the file /w/src/a/main.frugal
	cases := []struct{ cwd, file string }{
		{"/w/src", "a/main.frugal"},
		{"/w/src/a", "main.frugal"},
		{"/w/src/a", "./main.frugal"},
		{"/w", "src/a/main.frugal"},
		{"/w/src/b", "../a/main.frugal"},
		{"/elsewhere", "/w/src/a/main.frugal"},
		{"/w/src", "a/../a/main.frugal"},
	}
	run := func(i int) string {
		verifCwd, verifParsed, verifGenerated = cases[i].cwd, nil, nil
		err := Compile(Options{File: cases[i].file, Gen: "html", Out: "out", Delim: "."})
		verifAssert(err == nil, "Compile succeeds")
		verifAssert(len(verifParsed) == 1 && len(verifGenerated) == 1, "the file is parsed once and generated once")
		return verifParsed[0]
	}
	i, j := verifChoice(len(cases)), verifChoice(len(cases))
	a, b := run(i), run(j)
	verifAssert(a == b, "the parser is given the same file name whatever the working directory and the spelling of the path")
	verifAssert(a == "/w/src/a/main.frugal", "namely the absolute, cleaned path")
	verifReach("end")
}
