package compiler

import (
	"encoding/json"
	"fmt"
	"os"
	"sort"
	"testing"
)

type verifBatchItem struct {
	Entry  string   `json:"entry"`
	Vector []uint64 `json:"vector"`
	Param  int      `json:"param"`
	Bound  int      `json:"bound"`
}

type verifBatchResult struct {
	Result string   `json:"result"`
	Label  string   `json:"label,omitempty"`
	Panic  string   `json:"panic,omitempty"`
	Reach  []string `json:"reach"`
}

func verifRunOne(it verifBatchItem) (res verifBatchResult) {
	verifVec, verifPos, verifLoaded = it.Vector, 0, true
	verifReached = map[string]bool{}
	verifTrace = nil
	verifLastPanic = ""
	verifParamV, verifBoundV = it.Param, it.Bound
	f := verifHarnesses[it.Entry]
	if f == nil {
		return verifBatchResult{Result: "unknown-entry"}
	}
	defer func() {
		switch v := recover().(type) {
		case nil:
			res.Result = "ok"
		case verifViolation:
			res.Result, res.Label, res.Panic = "violation", v.label, verifLastPanic
		case verifSkip:
			res.Result = "skip"
		default:
			res.Result, res.Panic = "panic", fmt.Sprint(v)
		}
		for l := range verifReached {
			res.Reach = append(res.Reach, l)
		}
		sort.Strings(res.Reach)
	}()
	f()
	return
}

// TestVerifBatch runs harness entries natively with the vectors listed in VERIF_BATCH.
func TestVerifBatch(t *testing.T) {
	b, err := os.ReadFile(os.Getenv("VERIF_BATCH"))
	if err != nil {
		t.Skip("no batch")
	}
	var items []verifBatchItem
	if err := json.Unmarshal(b, &items); err != nil {
		t.Fatal(err)
	}
	for _, it := range items {
		r := verifRunOne(it)
		out, _ := json.Marshal(r)
		fmt.Printf("VERIF-RESULT %s\n", out)
	}
}
