package dartlang

// C11 (kernel scope): the Dart generator's identifier helpers never panic on a
// grammar-valid identifier.

func init() {
	verifHarnesses["VerifC11_DartIdentifiers"] = VerifC11_DartIdentifiers
}

func verifIdentifier(n int) string {
	b := make([]byte, n)
	for i := range b {
		classes := 4
		if i == 0 {
			classes = 3 // no leading digit
		}
		switch verifChoice(classes) {
		case 0:
			b[i] = byte('a' + verifRange(0, 25))
		case 1:
			b[i] = byte('A' + verifRange(0, 25))
		case 2:
			b[i] = '_'
		case 3:
			b[i] = byte('0' + verifRange(0, 9))
		}
	}
	return string(b)
}

func VerifC11_DartIdentifiers() {
	id := verifIdentifier(verifParam())
	verifNoPanic("snakeToCamel panics on a valid identifier", func() { _ = snakeToCamel(id) })
	verifNoPanic("toFileName panics on a valid identifier", func() { _ = toFileName(id) })
	verifNoPanic("toScreamingCapsConstant panics on a valid identifier", func() { _ = toScreamingCapsConstant(id) })
	verifNoPanic("toFieldName panics on a valid identifier", func() { _ = toFieldName(id) })
	verifNoPanic("lowercaseFirstCharacter panics on a valid identifier", func() { _ = lowercaseFirstCharacter(id) })
	verifNoPanic("toLibraryName panics on a valid identifier", func() { _ = toLibraryName(id) })
	verifReach("end")
}
