package c02basic

// C03 "over any supported transport": the generated client over the REAL adapter transport
// (frugal.NewAdapterTransport: framed stream, read loop, registry) and the generated
// processor behind a harness peer that answers every request frame it receives.

import (
	"bytes"
	"context"
	"io"

	frugal "github.com/Workiva/frugal/lib/go"
	"github.com/apache/thrift/lib/go/thrift"
)

func init() {
	verifHarnesses["VerifC03_AdapterCalls"] = VerifC03_AdapterCalls
}

// verifGenPipe is the byte stream under the adapter transport. What the transport writes and
// flushes is one request frame; a server goroutine processes the frames in order with the
// generated processor and feeds the reply frames into the read side.
type verifGenPipe struct {
	in     chan []byte
	cur    []byte
	wbuf   []byte
	reqs   chan []byte
	open   bool
	closed bool
}

func newVerifGenPipe(proc frugal.FProcessor, pf *frugal.FProtocolFactory, batch bool) *verifGenPipe {
	p := &verifGenPipe{in: make(chan []byte, 8), reqs: make(chan []byte, 8)}
	go func() {
		var held [][]byte
		for frame := range p.reqs {
			out := frugal.NewTMemoryOutputBuffer(0)
			in := &thrift.TMemoryBuffer{Buffer: bytes.NewBuffer(frame[4:])}
			if err := proc.Process(pf.GetProtocol(in), pf.GetProtocol(out)); err != nil {
				continue
			}
			if !out.HasWriteData() {
				continue
			}
			reply := append([]byte{}, out.Bytes()...)
			if batch {
				// a server that answers two requests back to back (both replies are on the wire before
				// either caller has looked at its own)
				held = append(held, reply)
				if len(held) == 2 {
					p.in <- held[0]
					p.in <- held[1]
					held = nil
				}
				continue
			}
			p.in <- reply
		}
	}()
	return p
}

func (p *verifGenPipe) Read(buf []byte) (int, error) {
	if len(p.cur) == 0 {
		chunk, ok := <-p.in
		if !ok {
			return 0, io.EOF
		}
		p.cur = chunk
	}
	n := copy(buf, p.cur)
	p.cur = p.cur[n:]
	return n, nil
}

func (p *verifGenPipe) Write(buf []byte) (int, error) {
	p.wbuf = append(p.wbuf, buf...)
	return len(buf), nil
}

func (p *verifGenPipe) Flush(ctx context.Context) error {
	if len(p.wbuf) > 0 {
		frame := p.wbuf
		p.wbuf = nil
		p.reqs <- frame
	}
	return nil
}
func (p *verifGenPipe) RemainingBytes() uint64 { return ^uint64(0) }
func (p *verifGenPipe) IsOpen() bool           { return p.open }
func (p *verifGenPipe) Open() error            { p.open = true; return nil }
func (p *verifGenPipe) Close() error {
	p.open = false
	if !p.closed {
		p.closed = true
		close(p.in)
	}
	return nil
}

var _ thrift.TTransport = (*verifGenPipe)(nil)

// Two goroutines call through one generated client over one adapter transport; the peer answers in
// request order, one by one or both replies back to back. Each caller observes the value for its
// own argument, whatever the interleaving of the transport's reader and the callers' decoding.
func VerifC03_AdapterCalls() {
	h := &verifHandler{}
	pf := frugal.NewFProtocolFactory(thrift.NewTBinaryProtocolFactoryDefault())
	batch := verifParam() == 1
	pipe := newVerifGenPipe(NewFBasicProcessor(h), pf, batch)
	tr := frugal.NewAdapterTransport(pipe)
	verifAssert(tr.Open() == nil, "the adapter transport opens")
	client := NewFBasicClient(frugal.NewFServiceProvider(tr, pf))
	// the second argument is not longer than the first: its reply fits a buffer sized for the first
	a1, a2 := "b"+verifStr(1), verifStr(1)
	type res struct {
		arg, got string
		err      error
	}
	done := make(chan res, 2)
	for _, a := range []string{a1, a2} {
		a := a
		go func() {
			got, err := client.FetchUrl(frugal.NewFContext("cid"), a)
			done <- res{a, got, err}
		}()
	}
	for i := 0; i < 2; i++ {
		r := <-done
		if r.err != nil {
			// the only acceptable failure: the virtual clock reached the context's timeout first (a slow peer)
			te, ok := r.err.(thrift.TTransportException)
			verifAssert(ok && te.TypeId() == frugal.TRANSPORT_EXCEPTION_TIMED_OUT, "a call fails only by timing out")
			verifReach("timed-out")
			continue
		}
		verifAssert(r.got == "url:"+r.arg, "each caller receives the value for its own argument")
	}
	verifAssert(h.calls == 2, "the handler ran once per call")
	verifAssert(tr.Close() == nil, "the transport closes")
	verifReach("end")
}
