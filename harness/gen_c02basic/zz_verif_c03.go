package c02basic

// C03: a call through generated client and server code is faithful end to end.
// Generated FBasicClient -> FStandardClient -> loop-back FTransport ->
// FBaseProcessor / generated basicF* processor functions -> handler, and back.

import (
	"bytes"
	"errors"

	frugal "github.com/Workiva/frugal/lib/go"
	"github.com/apache/thrift/lib/go/thrift"
)

func init() {
	verifHarnesses["VerifC03_Echo"] = VerifC03_Echo
	verifHarnesses["VerifC03_PingFire"] = VerifC03_PingFire
	verifHarnesses["VerifC03_VoidThrows"] = VerifC03_VoidThrows
	verifHarnesses["VerifC03_Names"] = VerifC03_Names
	verifHarnesses["VerifC03_EchoCompact"] = VerifC03_EchoCompact
	verifHarnesses["VerifC03_ConcurrentCalls"] = VerifC03_ConcurrentCalls
	verifHarnesses["VerifC03_OversizeReply"] = VerifC03_OversizeReply
}

// A server whose reply buffer is bounded: a result that does not fit is reported to
// the caller as RESPONSE_TOO_LARGE, and every later call on the same processor (same
// or another method, inherited ones included) still observes its handler's outcome -
// the oversize reply must not leave the processor's shared write lock behind.
func VerifC03_OversizeReply() {
	h := &verifHandler{outcome: verifValue, ret: NewInner()}
	big := "0123456789012345678901234567890123456789012345678901234567890123456789012345678901234567890123456789012345678901234567890123456789"
	big = big + big + big // 390 bytes
	h.ret.B = &big
	client, loop := verifSetup(h)
	loop.limit = uint(180 + 40*verifChoice(5)) // 180..340: admits the error reply and small replies, not the big one
	_, err := client.Echo(frugal.NewFContext("c1"), NewInner(), 1)
	te, ok := err.(thrift.TTransportException)
	verifAssert(ok && te.TypeId() == frugal.TRANSPORT_EXCEPTION_RESPONSE_TOO_LARGE, "a reply that does not fit the server's buffer reaches the caller as RESPONSE_TOO_LARGE")
	verifAssert(h.calls == 1, "the handler ran once")
	// later calls
	small := "x"
	h.ret.B = &small
	got, err := client.Echo(frugal.NewFContext("c2"), NewInner(), 2)
	verifAssert(err == nil && got != nil && got.B != nil && *got.B == "x", "the next call on the same method observes its handler's value")
	verifAssert(client.Ping(frugal.NewFContext("c3")) == nil && h.calls == 3, "and so does a call to another method of the processor")
	verifReach("end")
}

// two goroutines call through one generated client: each caller observes the value
// for its own argument and the handler sees each argument exactly once, whatever the
// interleaving between serialisation and the transport picking the frame up.
func VerifC03_ConcurrentCalls() {
	h := &verifHandler{}
	client, loop := verifSetup(h)
	loop.slow = true
	a1, a2 := verifStr(1), verifStr(1)
	verifAssume(a1 != a2)
	type res struct {
		arg, got string
		err      error
	}
	done := make(chan res, 2)
	var seen []string
	h.onFetch = func(u string) { seen = append(seen, u) }
	for _, a := range []string{a1, a2} {
		a := a
		go func() {
			got, err := client.FetchUrl(frugal.NewFContext("cid"), a)
			done <- res{a, got, err}
		}()
	}
	for i := 0; i < 2; i++ {
		r := <-done
		verifAssert(r.err == nil && r.got == "url:"+r.arg, "each caller receives the value for its own argument")
	}
	verifAssert(len(seen) == 2 && seen[0] != seen[1], "the handler ran once per call, with each argument once")
	verifReach("end")
}

// methods whose names differ only in capitalisation, and a method whose argument
// ids are not in declaration order: the right handler method runs with the
// arguments in the caller's positions.
func VerifC03_Names() {
	h := &verifHandler{outcome: verifChoice(2) * verifUndeclared} // value or undeclared failure
	client, loop := verifSetup(h)
	a := verifStr(verifChoice(verifBound() + 1))
	b := verifStr(verifChoice(verifBound() + 1))
	var got, want, which string
	var err error
	switch verifParam() {
	case 0:
		got, err = client.FetchUrl(frugal.NewFContext("cid"), a)
		which, want = "fetchUrl", "url:"+a
		verifAssert(h.s == a, "equal argument")
	case 1:
		got, err = client.FetchURL(frugal.NewFContext("cid"), a)
		which, want = "fetchURL", "URL:"+a
		verifAssert(h.s == a, "equal argument")
	case 2:
		got, err = client.Route(frugal.NewFContext("cid"), a, b)
		which, want = "route", a+"<-"+b
		verifAssert(h.s == a && h.id == b, "every argument arrives in the parameter the caller passed it for")
		verifReach("out-of-order-ids")
	case 3: // a typedef of an enum as argument and return type
		want := Shade(verifNondetI32())
		sh, e := client.Shade(frugal.NewFContext("cid"), want)
		verifAssert(h.calls == 1 && h.which == "shade" && h.n == int32(want), "equal argument")
		if h.outcome == verifValue {
			verifAssert(e == nil && sh == want^1, "the caller observes the returned enum value (declared or not)")
		} else {
			te, ok := e.(thrift.TApplicationException)
			verifAssert(ok && te.TypeId() == frugal.APPLICATION_EXCEPTION_INTERNAL_ERROR, "undeclared failure -> INTERNAL_ERROR")
		}
		verifReach("typedef-enum-return")
		verifReach("end")
		return
	}
	verifAssert(h.calls == 1 && loop.requests == 1 && h.which == which, "exactly the called method's handler runs, once")
	if h.outcome == verifValue {
		verifAssert(err == nil && got == want, "the caller observes the returned value")
	} else {
		te, ok := err.(thrift.TApplicationException)
		verifAssert(ok && te.TypeId() == frugal.APPLICATION_EXCEPTION_INTERNAL_ERROR, "undeclared failure -> INTERNAL_ERROR")
	}
	verifReach("end")
}

// verifLoop hands every request frame to the processor and returns what it wrote.
type verifLoop struct {
	limit    uint // size limit of the server's reply buffer (0 = none), as the NATS and HTTP servers have one
	slow     bool // look at the payload only after a scheduling point
	proc     frugal.FProcessor
	pf       *frugal.FProtocolFactory
	requests int
	oneways  int
	replied  bool
}

func (l *verifLoop) run(payload []byte) (*frugal.TMemoryOutputBuffer, error) {
	if l.slow {
		verifYield("transport waits for the connection")
	}
	out := frugal.NewTMemoryOutputBuffer(l.limit)
	in := &thrift.TMemoryBuffer{Buffer: bytes.NewBuffer(payload[4:])}
	err := l.proc.Process(l.pf.GetProtocol(in), l.pf.GetProtocol(out))
	return out, err
}

func (l *verifLoop) Request(ctx frugal.FContext, payload []byte) (thrift.TTransport, error) {
	l.requests++
	out, err := l.run(payload)
	if err != nil {
		return nil, err
	}
	if !out.HasWriteData() {
		return nil, errors.New("verif: the server wrote no reply")
	}
	l.replied = true
	return &thrift.TMemoryBuffer{Buffer: bytes.NewBuffer(out.Bytes()[4:])}, nil
}

func (l *verifLoop) Oneway(ctx frugal.FContext, payload []byte) error {
	l.oneways++
	out, err := l.run(payload)
	if err != nil {
		return err
	}
	l.replied = out.HasWriteData()
	return nil
}

func (l *verifLoop) Open() error                         { return nil }
func (l *verifLoop) Close() error                        { return nil }
func (l *verifLoop) IsOpen() bool                        { return true }
func (l *verifLoop) Closed() <-chan error                { return nil }
func (l *verifLoop) SetMonitor(frugal.FTransportMonitor) {}
func (l *verifLoop) GetRequestSizeLimit() uint           { return 0 }

const (
	verifValue = iota
	verifDeclared
	verifUndeclared
	verifApp
	verifOutcomes
	verifDeclared2 = verifOutcomes     // the second declared exception (remove only)
	verifNilValue  = verifOutcomes + 1 // (nil, nil) from a method returning a struct (echo only)
)

type verifHandler struct {
	onFetch func(string)
	which   string
	strict  *Strict
	id      string
	calls   int
	arg     *Inner
	n       int32
	s       string
	outcome int
	ret     *Inner
	oops    *Oops
	appType int32
}

func (h *verifHandler) fail() error {
	switch h.outcome {
	case verifDeclared:
		return h.oops
	case verifUndeclared:
		return errors.New("boom")
	case verifApp:
		return thrift.NewTApplicationException(h.appType, "app")
	}
	return nil
}

func (h *verifHandler) Echo(fctx frugal.FContext, arg *Inner, n int32) (*Inner, error) {
	h.calls++
	h.arg, h.n = arg, n
	if err := h.fail(); err != nil {
		return nil, err
	}
	if h.outcome == verifNilValue {
		return nil, nil
	}
	return h.ret, nil
}

func (h *verifHandler) Remove(fctx frugal.FContext, id string) error {
	h.calls++
	h.id = id
	if h.outcome == verifDeclared2 {
		return h.strict
	}
	return h.fail()
}

func (h *verifHandler) Ping(fctx frugal.FContext) error {
	h.calls++
	if h.outcome == verifDeclared {
		return nil // ping declares no exception
	}
	return h.fail()
}

func (h *verifHandler) FetchUrl(fctx frugal.FContext, u string) (string, error) {
	h.calls++
	h.which, h.s = "fetchUrl", u
	if h.onFetch != nil {
		h.onFetch(u)
	}
	return "url:" + u, h.fail()
}

func (h *verifHandler) FetchURL(fctx frugal.FContext, u string) (string, error) {
	h.calls++
	h.which, h.s = "fetchURL", u
	return "URL:" + u, h.fail()
}

func (h *verifHandler) Route(fctx frugal.FContext, to string, sender string) (string, error) {
	h.calls++
	h.which, h.s, h.id = "route", to, sender
	return to + "<-" + sender, h.fail()
}

func (h *verifHandler) Shade(fctx frugal.FContext, want Shade) (Shade, error) {
	h.calls++
	h.which, h.n = "shade", int32(want)
	return want ^ 1, h.fail() // stays inside the i32 range of the wire
}

func (h *verifHandler) Fire(fctx frugal.FContext, s string) error {
	h.calls++
	h.s = s
	if h.outcome == verifDeclared {
		return nil
	}
	return h.fail()
}

// verifAppOutcome: an application exception keeps its type, except the one type
// Frugal reserves for oversize responses, which the client reports as the
// RESPONSE_TOO_LARGE transport error (see C12).
func verifAppOutcome(err error, appType int32) {
	if appType == frugal.APPLICATION_EXCEPTION_RESPONSE_TOO_LARGE {
		te, ok := err.(thrift.TTransportException)
		verifAssert(ok && te.TypeId() == frugal.TRANSPORT_EXCEPTION_RESPONSE_TOO_LARGE, "type 100 is reported as RESPONSE_TOO_LARGE")
		return
	}
	te, ok := err.(thrift.TApplicationException)
	verifAssert(ok && te.TypeId() == appType, "an application exception keeps its type")
}

// verifI32: every int32 for the fixed-width binary protocol; for the variable-length
// protocols a range that covers one- and two-byte encodings of both signs (an
// arbitrary value would fork at every varint byte / decimal digit)
func verifI32() int32 {
	if verifProtocol != 0 {
		return int32(verifRange(-70, 70))
	}
	return verifNondetI32()
}

func verifInner() *Inner {
	in := NewInner()
	in.A = verifI32()
	if verifNondetBool() {
		b := verifStr(verifChoice(verifBound() + 1))
		in.B = &b
	}
	in.C = Color(verifI32())
	return in
}

func verifInnerEq(a, b *Inner) bool {
	if a == nil || b == nil {
		return a == b
	}
	if a.A != b.A || a.C != b.C || (a.B == nil) != (b.B == nil) {
		return false
	}
	return a.B == nil || *a.B == *b.B
}

// verifProtocol: 0 binary, 1 compact, 2 JSON (set by the entry wrappers below)
var verifProtocol int

func verifThriftFactory() thrift.TProtocolFactory {
	switch verifProtocol {
	case 1:
		return thrift.NewTCompactProtocolFactoryConf(nil)
	case 2:
		return thrift.NewTJSONProtocolFactory()
	}
	return thrift.NewTBinaryProtocolFactoryDefault()
}

func VerifC03_EchoCompact() {
	verifProtocol = 1
	VerifC03_Echo()
}

func verifSetup(h *verifHandler) (*FBasicClient, *verifLoop) {
	pf := frugal.NewFProtocolFactory(verifThriftFactory())
	loop := &verifLoop{proc: NewFBasicProcessor(h), pf: pf}
	return NewFBasicClient(frugal.NewFServiceProvider(loop, pf)), loop
}

func VerifC03_Echo() {
	h := &verifHandler{outcome: verifChoice(verifOutcomes + 2), ret: verifInner(), appType: int32(verifRange(0, 100))}
	verifAssume(h.outcome != verifDeclared2)
	h.oops = NewOops()
	h.oops.Why = verifStr(verifChoice(2))
	if verifNondetBool() {
		c := verifI32()
		h.oops.Code = &c
	}
	client, loop := verifSetup(h)
	arg, n := verifInner(), verifI32()
	fctx := frugal.NewFContext("cid")
	got, err := client.Echo(fctx, arg, n)

	verifAssert(h.calls == 1 && loop.requests == 1, "the handler is invoked exactly once")
	verifAssert(verifInnerEq(h.arg, arg) && h.n == n, "the handler sees equal arguments")
	switch h.outcome {
	case verifValue:
		verifAssert(err == nil && verifInnerEq(got, h.ret), "the caller observes the returned value")
		verifReach("value")
	case verifNilValue:
		verifAssert(err == nil && got == nil, "a nil value with a nil error reaches the caller as such")
		verifReach("nil-value")
	case verifDeclared:
		o, ok := err.(*Oops)
		verifAssert(ok && got == nil, "the caller observes the declared exception")
		verifAssert(o.Why == h.oops.Why && (o.Code == nil) == (h.oops.Code == nil) && (o.Code == nil || *o.Code == *h.oops.Code), "with equal fields")
		verifReach("declared")
	case verifUndeclared:
		te, ok := err.(thrift.TApplicationException)
		verifAssert(ok && te.TypeId() == frugal.APPLICATION_EXCEPTION_INTERNAL_ERROR, "an undeclared failure reaches the caller as INTERNAL_ERROR")
		verifReach("undeclared")
	case verifApp:
		verifAppOutcome(err, h.appType)
		verifReach("app-exception")
	}
	_, has := fctx.ResponseHeader("_opid")
	verifAssert(!has, "the caller's context is not polluted with the wire op id")
	verifReach("end")
}

func VerifC03_PingFire() {
	h := &verifHandler{outcome: verifChoice(verifOutcomes), appType: int32(verifRange(0, 100))}
	client, loop := verifSetup(h)
	if verifParam() == 0 {
		err := client.Ping(frugal.NewFContext("cid"))
		verifAssert(h.calls == 1 && loop.requests == 1, "the handler is invoked exactly once")
		switch h.outcome {
		case verifValue, verifDeclared:
			verifAssert(err == nil, "a void method returns without error")
		case verifUndeclared:
			te, ok := err.(thrift.TApplicationException)
			verifAssert(ok && te.TypeId() == frugal.APPLICATION_EXCEPTION_INTERNAL_ERROR, "undeclared failure -> INTERNAL_ERROR")
		case verifApp:
			verifAppOutcome(err, h.appType)
		}
		verifReach("ping")
	} else {
		s := verifStr(verifChoice(verifBound() + 1))
		err := client.Fire(frugal.NewFContext("cid"), s)
		verifAssert(err == nil, "a oneway call returns without waiting for the handler's outcome")
		verifAssert(h.calls == 1 && loop.oneways == 1 && h.s == s, "the handler is invoked exactly once with the equal argument")
		if h.outcome == verifValue || h.outcome == verifDeclared {
			verifAssert(!loop.replied, "a successful oneway call produces no reply")
		}
		verifReach("fire")
	}
	verifReach("end")
}

// a void method with two declared exceptions
func VerifC03_VoidThrows() {
	h := &verifHandler{outcome: verifChoice(verifOutcomes + 1), appType: int32(verifRange(0, 100))}
	h.oops = NewOops()
	h.oops.Why = verifStr(verifChoice(2))
	h.strict = NewStrict()
	h.strict.Why = verifStr(verifChoice(2))
	h.strict.Level = verifNondetI32()
	client, loop := verifSetup(h)
	id := verifStr(verifChoice(verifBound() + 1))
	err := client.Remove(frugal.NewFContext("cid"), id)
	verifAssert(h.calls == 1 && loop.requests == 1 && h.id == id, "the handler is invoked exactly once with the equal argument")
	switch h.outcome {
	case verifValue:
		verifAssert(err == nil, "a void method that succeeds returns no error")
		verifReach("void-ok")
	case verifDeclared:
		o, ok := err.(*Oops)
		verifAssert(ok && o.Why == h.oops.Why, "the caller observes the first declared exception of a void method")
		verifReach("void-declared-1")
	case verifDeclared2:
		o, ok := err.(*Strict)
		verifAssert(ok && o.Why == h.strict.Why && o.Level == h.strict.Level, "the caller observes the second declared exception of a void method")
		verifReach("void-declared-2")
	case verifUndeclared:
		te, ok := err.(thrift.TApplicationException)
		verifAssert(ok && te.TypeId() == frugal.APPLICATION_EXCEPTION_INTERNAL_ERROR, "undeclared failure -> INTERNAL_ERROR")
	case verifApp:
		verifAppOutcome(err, h.appType)
	}
	verifReach("end")
}
