package c02basic

// Checks on GENERATED wiring for C07 (pub/sub delivery through the generated
// publisher and subscriber) and C16 (middleware wiring of the generated
// constructors).

import (
	"bytes"
	"reflect"

	frugal "github.com/Workiva/frugal/lib/go"
	"github.com/apache/thrift/lib/go/thrift"
)

func init() {
	verifHarnesses["VerifC07_GeneratedPubSub"] = VerifC07_GeneratedPubSub
	verifHarnesses["VerifC16_GeneratedWiring"] = VerifC16_GeneratedWiring
	verifHarnesses["VerifC16_GeneratedSubscribers"] = VerifC16_GeneratedSubscribers
	verifHarnesses["VerifC16_GeneratedArgs"] = VerifC16_GeneratedArgs
}

// C16 "each seeing the arguments the caller passed ... a change a middleware makes to
// arguments is exactly what the other side observes", on a generated method whose
// argument ids are not in declaration order: client-side and server-side middleware
// see (context, to, sender) in the handler's parameter order, and a rewrite of one
// position changes exactly that parameter.
func VerifC16_GeneratedArgs() {
	type seen struct{ to, sender string }
	var client, server []seen
	observe := func(into *[]seen, rewrite int, suffix string) frugal.ServiceMiddleware {
		return func(next frugal.InvocationHandler) frugal.InvocationHandler {
			return func(service reflect.Value, method reflect.Method, args frugal.Arguments) frugal.Results {
				*into = append(*into, seen{args[1].(string), args[2].(string)})
				if rewrite > 0 {
					args[rewrite] = args[rewrite].(string) + suffix
				}
				return next(service, method, args)
			}
		}
	}
	h := &verifHandler{}
	pf := frugal.NewFProtocolFactory(thrift.NewTBinaryProtocolFactoryDefault())
	rc, rs := verifChoice(3), verifChoice(3) // which position the client / server middleware rewrites (0 = none)
	loop := &verifLoop{proc: NewFBasicProcessor(h, observe(&server, rs, "S")), pf: pf}
	cl := NewFBasicClient(frugal.NewFServiceProvider(loop, pf), observe(&client, rc, "C"))
	to, sender := verifStr(verifChoice(2)), verifStr(verifChoice(2))
	got, err := cl.Route(frugal.NewFContext("c"), to, sender)
	wantTo, wantSender := to, sender
	verifAssert(len(client) == 1 && client[0].to == to && client[0].sender == sender, "client middleware sees the caller's arguments in their positions")
	if rc == 1 {
		wantTo += "C"
	} else if rc == 2 {
		wantSender += "C"
	}
	verifAssert(len(server) == 1 && server[0].to == wantTo && server[0].sender == wantSender, "server middleware sees what the client side sent, in the handler's parameter positions")
	if rs == 1 {
		wantTo += "S"
	} else if rs == 2 {
		wantSender += "S"
	}
	verifAssert(h.calls == 1 && h.s == wantTo && h.id == wantSender, "the handler observes exactly the rewritten arguments, each in its own parameter")
	verifAssert(err == nil && got == wantTo+"<-"+wantSender, "and the caller the handler's result")
	verifReach("end")
}

// verifBus connects generated publishers to generated subscribers: a publish on
// a topic is handed to every callback subscribed to exactly that topic.
type verifBus struct {
	subs      map[string][]frugal.FAsyncCallback
	published []string
	cbErrs    []error
}

func (b *verifBus) GetTransport() frugal.FPublisherTransport { return &verifBusPub{b} }

type verifBusPub struct{ b *verifBus }

func (p *verifBusPub) Open() error               { return nil }
func (p *verifBusPub) Close() error              { return nil }
func (p *verifBusPub) IsOpen() bool              { return true }
func (p *verifBusPub) GetPublishSizeLimit() uint { return 0 }
func (p *verifBusPub) Publish(topic string, data []byte) error {
	p.b.published = append(p.b.published, topic)
	for _, cb := range p.b.subs[topic] {
		p.b.cbErrs = append(p.b.cbErrs, cb(&thrift.TMemoryBuffer{Buffer: bytes.NewBuffer(data[4:])}))
	}
	return nil
}

type verifBusSubF struct{ b *verifBus }

func (f *verifBusSubF) GetTransport() frugal.FSubscriberTransport { return &verifBusSub{b: f.b} }

type verifBusSub struct {
	b     *verifBus
	topic string
}

func (s *verifBusSub) Subscribe(topic string, cb frugal.FAsyncCallback) error {
	s.topic = topic
	s.b.subs[topic] = append(s.b.subs[topic], cb)
	return nil
}
func (s *verifBusSub) Unsubscribe() error { delete(s.b.subs, s.topic); return nil }
func (s *verifBusSub) IsSubscribed() bool { return true }

func verifScopeProvider(b *verifBus, mw ...frugal.ServiceMiddleware) *frugal.FScopeProvider {
	return frugal.NewFScopeProvider(b, &verifBusSubF{b}, frugal.NewFProtocolFactory(thrift.NewTBinaryProtocolFactoryDefault()), mw...)
}

// C07 through generated code: exactly once, intact, with the publisher's headers,
// other operations and other variable values never delivered.
func VerifC07_GeneratedPubSub() {
	bus := &verifBus{subs: map[string][]frugal.FAsyncCallback{}}
	prov := verifScopeProvider(bus)
	pub := NewEventsPublisher(prov)
	verifAssert(pub.Open() == nil, "open")
	type got struct {
		in  *Inner
		hdr string
		usr string
	}
	var created, renamed []got
	sub := NewEventsSubscriber(prov)
	_, err := sub.SubscribeCreated("u1", func(ctx frugal.FContext, in *Inner) {
		h, _ := ctx.RequestHeader("h")
		u, _ := ctx.RequestHeader("_topic_user")
		created = append(created, got{in, h, u})
	})
	verifAssert(err == nil, "subscribe Created")
	_, err = sub.SubscribeRenamed("u1", func(ctx frugal.FContext, in *Inner) { renamed = append(renamed, got{in: in}) })
	verifAssert(err == nil, "subscribe Renamed")
	n := 1 + verifParam()
	wantCreated := 0
	var sent []*Inner
	var hdrs []string
	for i := 0; i < n; i++ {
		in := verifInner()
		fctx := frugal.NewFContext("cid")
		hdr := verifStr(1)
		fctx.AddRequestHeader("h", hdr)
		switch verifChoice(3) {
		case 0:
			verifAssert(pub.PublishCreated(fctx, "u1", in) == nil, "publish")
			sent = append(sent, in)
			hdrs = append(hdrs, hdr)
			wantCreated++
			verifReach("own")
		case 1:
			verifAssert(pub.PublishRenamed(fctx, "u1", in) == nil, "publish other operation")
			verifReach("other-operation")
		case 2:
			verifAssert(pub.PublishCreated(fctx, "u2", in) == nil, "publish for another variable value")
			verifReach("other-topic")
		}
	}
	verifAssert(len(created) == wantCreated, "the handler ran exactly once per message of its topic and operation")
	for i := range created {
		verifAssert(verifInnerEq(created[i].in, sent[i]), "payload equal, in publish order")
		verifAssert(created[i].hdr == hdrs[i] && created[i].usr == "u1", "the publisher's headers (and the topic variable) arrive")
	}
	for _, e := range bus.cbErrs {
		verifAssert(e == nil, "no callback failed")
	}
	verifReach("end")
}

func verifTraceMw(id int, trace *[]int) frugal.ServiceMiddleware {
	return func(next frugal.InvocationHandler) frugal.InvocationHandler {
		return func(service reflect.Value, method reflect.Method, args frugal.Arguments) frugal.Results {
			*trace = append(*trace, id)
			res := next(service, method, args)
			*trace = append(*trace, -id)
			return res
		}
	}
}

func verifNested(trace []int, want []int) bool {
	if len(trace) != 2*len(want) {
		return false
	}
	for i, id := range want {
		if trace[i] != id || trace[len(trace)-1-i] != -id {
			return false
		}
	}
	return true
}

// C16 on the generated constructors: client, processor, publisher, subscriber each
// wrap provider middleware around constructor middleware around the target.
func VerifC16_GeneratedWiring() {
	var trace []int
	na, nb := 1+verifChoice(2), verifChoice(3)
	var ctor, provMw []frugal.ServiceMiddleware
	var want []int
	for i := 0; i < nb; i++ {
		provMw = append(provMw, verifTraceMw(101+i, &trace))
	}
	for i := 0; i < na; i++ {
		ctor = append(ctor, verifTraceMw(1+i, &trace))
	}
	for i := nb - 1; i >= 0; i-- {
		want = append(want, 101+i)
	}
	for i := na - 1; i >= 0; i-- {
		want = append(want, 1+i)
	}
	switch verifParam() {
	case 0: // client
		h := &verifHandler{outcome: verifValue, ret: NewInner()}
		pf := frugal.NewFProtocolFactory(thrift.NewTBinaryProtocolFactoryDefault())
		loop := &verifLoop{proc: NewFBasicProcessor(h), pf: pf}
		client := NewFBasicClient(frugal.NewFServiceProvider(loop, pf, provMw...), ctor...)
		verifAssert(client.Ping(frugal.NewFContext("c")) == nil && h.calls == 1, "call goes through")
		verifAssert(verifNested(trace, want), "client: provider middleware wraps constructor middleware, each exactly once")
		verifReach("client")
	case 1: // processor (constructor middleware only; AddMiddleware afterwards wraps outermost)
		h := &verifHandler{outcome: verifValue, ret: NewInner()}
		pf := frugal.NewFProtocolFactory(thrift.NewTBinaryProtocolFactoryDefault())
		proc := NewFBasicProcessor(h, ctor...)
		for _, m := range provMw {
			proc.AddMiddleware(m)
		}
		loop := &verifLoop{proc: proc, pf: pf}
		client := NewFBasicClient(frugal.NewFServiceProvider(loop, pf))
		verifAssert(client.Ping(frugal.NewFContext("c")) == nil && h.calls == 1, "call goes through")
		verifAssert(verifNested(trace, want), "processor: later-added wraps earlier, each exactly once")
		verifReach("processor")
	case 2: // publisher
		bus := &verifBus{subs: map[string][]frugal.FAsyncCallback{}}
		pub := NewEventsPublisher(verifScopeProvider(bus, provMw...), ctor...)
		verifAssert(pub.PublishCreated(frugal.NewFContext("c"), "u", NewInner()) == nil && len(bus.published) == 1, "publish goes through")
		verifAssert(verifNested(trace, want), "publisher: provider middleware wraps constructor middleware, each exactly once")
		verifReach("publisher")
	case 3: // subscriber
		bus := &verifBus{subs: map[string][]frugal.FAsyncCallback{}}
		prov := verifScopeProvider(bus, provMw...)
		sub := NewEventsSubscriber(prov, ctor...)
		calls := 0
		_, err := sub.SubscribeCreated("u", func(frugal.FContext, *Inner) { calls++ })
		verifAssert(err == nil, "subscribe")
		pub := NewEventsPublisher(verifScopeProvider(bus))
		verifAssert(pub.PublishCreated(frugal.NewFContext("c"), "u", NewInner()) == nil && calls == 1, "delivery goes through")
		verifAssert(verifNested(trace, want), "subscriber: provider middleware wraps constructor middleware, each exactly once")
		verifReach("subscriber")
	}
	verifReach("end")
}

// C16: two generated subscribers (or publishers) built from the SAME variadic
// slice with spare capacity and DIFFERENT providers: each delivery passes
// through its own provider's middleware.
func VerifC16_GeneratedSubscribers() {
	var trace []int
	spare := verifChoice(3)
	shared := make([]frugal.ServiceMiddleware, 1, 1+spare)
	shared[0] = verifTraceMw(1, &trace)
	busA, busB := &verifBus{subs: map[string][]frugal.FAsyncCallback{}}, &verifBus{subs: map[string][]frugal.FAsyncCallback{}}
	provA := verifScopeProvider(busA, verifTraceMw(101, &trace))
	provB := verifScopeProvider(busB, verifTraceMw(201, &trace))
	subA := NewEventsSubscriber(provA, shared...)
	subB := NewEventsSubscriber(provB, shared...)
	callsA, callsB := 0, 0
	_, err := subA.SubscribeCreated("u", func(frugal.FContext, *Inner) { callsA++ })
	verifAssert(err == nil, "subscribe A")
	_, err = subB.SubscribeCreated("u", func(frugal.FContext, *Inner) { callsB++ })
	verifAssert(err == nil, "subscribe B")
	trace = nil
	verifAssert(NewEventsPublisher(verifScopeProvider(busA)).PublishCreated(frugal.NewFContext("c"), "u", NewInner()) == nil && callsA == 1 && callsB == 0, "delivery to A")
	verifAssert(verifNested(trace, []int{101, 1}), "subscriber A's delivery passes through provider A's middleware and the constructor middleware")
	trace = nil
	verifAssert(NewEventsPublisher(verifScopeProvider(busB)).PublishCreated(frugal.NewFContext("c"), "u", NewInner()) == nil && callsB == 1, "delivery to B")
	verifAssert(verifNested(trace, []int{201, 1}), "subscriber B's delivery passes through provider B's middleware and the constructor middleware")
	if spare > 0 {
		verifReach("spare-capacity")
	}
	verifReach("end")
}
