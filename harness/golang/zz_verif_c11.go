package golang

// C11 (kernel scope): the Go generator's identifier helpers never panic on a
// grammar-valid identifier.

func init() {
	verifHarnesses["VerifC11_GoIdentifiers"] = VerifC11_GoIdentifiers
}

// verifIdentifier returns an arbitrary string matching the grammar's
// Identifier rule without dots: (Letter / '_')+ (Letter / Digit / '_')*.
func verifIdentifier(n int) string {
	b := make([]byte, n)
	for i := range b {
		classes := 4
		if i == 0 {
			classes = 3 // no leading digit
		}
		switch verifChoice(classes) {
		case 0:
			b[i] = byte('a' + verifRange(0, 25))
		case 1:
			b[i] = byte('A' + verifRange(0, 25))
		case 2:
			b[i] = '_'
		case 3:
			b[i] = byte('0' + verifRange(0, 9))
		}
	}
	return string(b)
}

func VerifC11_GoIdentifiers() {
	id := verifIdentifier(verifParam())
	verifNoPanic("snakeToCamel panics on a valid identifier", func() { _ = snakeToCamel(id) })
	verifNoPanic("title panics on a valid identifier", func() { _ = title(id) })
	verifNoPanic("titleServiceName panics on a valid identifier", func() { _ = titleServiceName(id, "Svc") })
	verifNoPanic("startsWithInitialism panics on a valid identifier", func() { _ = startsWithInitialism(id) })
	verifNoPanic("includeNameToReference panics on a valid identifier", func() { _ = includeNameToReference(id) })
	verifNoPanic("includeNameToImport panics on a valid identifier", func() { _ = includeNameToImport(id) })
	verifReach("end")
}
