"""C08: publisher and subscriber agree on the topic, in every target language.

For a catalogue of (scope name, prefix, delimiter) cases the REAL compiler (built
from /repo) generates Go, Java, Dart and Python (plain, asyncio, tornado).
 * Go: the generated publisher / subscriber are executed symbolically by gose
   (variable values are symbolic strings) up to the transport calls.
 * Java / Dart / Python: the topic expression is extracted from the generated
   source into a rope (literals and variables) and z3's string theory decides,
   for ALL variable values, whether it equals the specification rope.
"""
import json, os, re, subprocess, time, hashlib
import genpipe

VERIF = os.path.dirname(os.path.abspath(__file__))
# evidence and replays of an evaluation run against a scratch tree (VERIF_REPO set) go to a scratch place
_ALT = os.environ.get("VERIF_REPO", "/repo") != "/repo"
EVIDENCE = os.path.join(os.environ.get("VERIF_ALT_OUT", "/tmp/verif_alt"), "evidence") if _ALT else os.path.join(VERIF, "evidence")
REPLAYS = os.path.join(os.environ.get("VERIF_ALT_OUT", "/tmp/verif_alt"), "replays") if _ALT else os.path.join(VERIF, "replays")

NAMES = ["Alpha", "beta", "gamma_delta", "EPSILON"]
PREFIXES = [None, "a.b", "a.{user}", "{user}.a", "a.{user}.b.{kind}", "{user}"]


def cases(tier):
    delims = [".", "/", "%"] if tier == "quick" else [".", "/", ":", "::", "%", "-%-"]
    out = []
    for d in delims:
        scopes = []
        k = 0
        for pi, p in enumerate(PREFIXES):
            names = [NAMES[(pi + 0) % 4], NAMES[(pi + 1) % 4]] if tier == "quick" else NAMES
            for n in names:
                scopes.append({"name": "%s%d" % (n, k), "prefix": p})
                k += 1
        out.append({"delim": d, "scopes": scopes})
    return out


def title(s):
    # strings.Title for ASCII identifiers: upper-case the first letter of each word (words split at non-letters)
    out, prev_letter = [], False
    for ch in s:
        if ch.isalpha() and not prev_letter:
            out.append(ch.upper())
        else:
            out.append(ch)
        prev_letter = ch.isalpha() or ch.isdigit() or ch == "_"
    return "".join(out)


def prefix_vars(p):
    return re.findall(r"\{(\w+)\}", p or "")


def prefix_rope(p):
    rope = []
    for tok in re.split(r"(\{\w+\})", p or ""):
        if not tok:
            continue
        m = re.fullmatch(r"\{(\w+)\}", tok)
        rope.append(("var", m.group(1)) if m else ("lit", tok))
    return rope


def norm(rope):
    out = []
    for kind, v in rope:
        if kind == "lit" and v == "":
            continue
        if kind == "lit" and out and out[-1][0] == "lit":
            out[-1] = ("lit", out[-1][1] + v)
        else:
            out.append((kind, v))
    return out


def spec_rope(scope, delim, op, titled=True):
    rope = []
    if scope["prefix"]:
        rope += prefix_rope(scope["prefix"]) + [("lit", delim)]
    rope += [("lit", title(scope["name"]) if titled else scope["name"]), ("lit", delim), ("lit", op)]
    return norm(rope)


def write_idl(path, pkg, scopes):
    s = "namespace go %s\nnamespace java %s\nnamespace dart %s\nnamespace py %s\n\nstruct Ev {\n    1: string s\n}\n\n" % (pkg, pkg, pkg, pkg)
    for sc in scopes:
        pre = (" prefix " + sc["prefix"]) if sc["prefix"] else ""
        s += "scope %s%s {\n    Created: Ev\n}\n\n" % (sc["name"], pre)
    open(path, "w").write(s)


# ---- extraction of topic expressions ----

class ExtractError(Exception):
    pass


def fmt_rope(fmt, args, conv):
    """printf-like format with %s (java) or {} (python) placeholders."""
    rope, i = [], 0
    parts = re.split(conv, fmt)
    if len(parts) - 1 != len(args):
        raise ExtractError("placeholder/argument mismatch in %r with %r" % (fmt, args))
    for n, p in enumerate(parts):
        rope.append(("lit", p))
        if n < len(args):
            rope += args[n]
    return rope


def java_fmt_rope(fmt, args):
    """java.util.Formatter as far as the generated code uses it: %s takes the next argument, %% is a literal
    percent sign; any other conversion makes String.format THROW (UnknownFormatConversionException /
    MissingFormatArgumentException): the rope then carries a marker no specification rope contains."""
    rope, lit, i, n = [], "", 0, 0
    while i < len(fmt):
        c = fmt[i]
        if c != "%":
            lit += c
            i += 1
            continue
        nxt = fmt[i + 1] if i + 1 < len(fmt) else ""
        if nxt == "%":
            lit += "%"
        elif nxt == "s" and n < len(args):
            rope.append(("lit", lit))
            lit = ""
            rope += args[n]
            n += 1
        else:
            return [("lit", "<String.format throws on conversion %" + nxt + ">")]
        i += 2
    if n != len(args):
        raise ExtractError("placeholder/argument mismatch in %r with %r" % (fmt, args))
    rope.append(("lit", lit))
    return rope


def eval_java(expr, env):
    expr = expr.strip()
    m = re.fullmatch(r'String\.format\("((?:[^"\\]|\\.)*)"((?:\s*,\s*\w+)*)\)', expr)
    if m:
        args = [eval_java(a, env) for a in re.findall(r"\w+", m.group(2))]
        return java_fmt_rope(m.group(1), args)
    m = re.fullmatch(r'"((?:[^"\\]|\\.)*)"', expr)
    if m:
        return [("lit", m.group(1))]
    if re.fullmatch(r"\w+", expr):
        if expr in env:
            return env[expr]
        raise ExtractError("java: unknown identifier " + expr)
    raise ExtractError("java: cannot parse " + expr)


def eval_py(expr, env):
    expr = expr.strip()
    m = re.fullmatch(r"'((?:[^'\\]|\\.)*)'\.format\(([^)]*)\)", expr)
    if m:
        args = [eval_py(a, env) for a in [x.strip() for x in m.group(2).split(",") if x.strip()]]
        return fmt_rope(m.group(1), args, r"\{\}")
    m = re.fullmatch(r"'((?:[^'\\]|\\.)*)'", expr)
    if m:
        return [("lit", m.group(1))]
    expr = expr.replace("self.", "")
    if re.fullmatch(r"\w+", expr):
        if expr in env:
            return env[expr]
        raise ExtractError("py: unknown identifier " + expr)
    raise ExtractError("py: cannot parse " + expr)


def eval_dart(expr, env):
    expr = expr.strip()
    m = re.fullmatch(r"'((?:[^'\\]|\\.)*)'", expr)
    if not m:
        if re.fullmatch(r"\w+", expr) and expr in env:
            return env[expr]
        raise ExtractError("dart: cannot parse " + expr)
    rope = []
    for tok in re.split(r"(\$\{\w+\}|\$\w+)", m.group(1)):
        if not tok:
            continue
        mm = re.fullmatch(r"\$\{(\w+)\}|\$(\w+)", tok)
        if mm:
            name = mm.group(1) or mm.group(2)
            if name not in env:
                raise ExtractError("dart: unknown identifier " + name)
            rope += env[name]
        else:
            rope.append(("lit", tok))
    return rope


def extract(text, lang, variables, where):
    """Finds the prefix / topic statements inside the function containing `where` and evaluates them."""
    i = text.find(where)
    if i < 0:
        raise ExtractError("%s: marker %r not found" % (lang, where))
    body = text[i:]
    env = {v: [("var", v)] for v in variables}
    if lang == "java":
        m = re.search(r'DELIMITER\s*=\s*("(?:[^"\\]|\\.)*")\s*;', text)
        if not m:
            raise ExtractError("java: no DELIMITER")
        env["DELIMITER"] = eval_java(m.group(1), env)
        pats = [("op", r'String\s+op\s*=\s*(.+?);'), ("prefix", r'String\s+prefix\s*=\s*(.+?);'), ("topic", r'(?:final\s+)?String\s+topic\s*=\s*(.+?);')]
        ev = eval_java
    elif lang == "dart":
        m = re.search(r"const\s+String\s+delimiter\s*=\s*('(?:[^'\\]|\\.)*')\s*;", text)
        if not m:
            raise ExtractError("dart: no delimiter")
        env["delimiter"] = eval_dart(m.group(1), env)
        pats = [("op", r"var\s+op\s*=\s*(.+?);"), ("prefix", r"var\s+prefix\s*=\s*(.+?);"), ("topic", r"var\s+topic\s*=\s*(.+?);")]
        ev = eval_dart
    else:
        m = re.search(r"_DELIMITER\s*=\s*('(?:[^'\\]|\\.)*')", text)
        if not m:
            raise ExtractError("py: no _DELIMITER")
        env["_DELIMITER"] = eval_py(m.group(1), env)
        pats = [("op", r"\bop\s*=\s*(.+)"), ("prefix", r"\bprefix\s*=\s*(.+)"), ("topic", r"\btopic\s*=\s*(.+)")]
        ev = eval_py
    for name, pat in pats:
        m = re.search(pat, body)
        if not m:
            raise ExtractError("%s: no %s statement after %r" % (lang, name, where))
        env[name] = ev(m.group(1), env)
    return norm(env["topic"])


# ---- the solver step ----

def smt_str(s):
    return '"' + "".join(c if 32 <= ord(c) < 127 and c not in '"\\' else "\\u{%x}" % ord(c) for c in s) + '"'


def rope_term(rope):
    if not rope:
        return '""'
    parts = [smt_str(v) if k == "lit" else "v_" + v for k, v in rope]
    return parts[0] if len(parts) == 1 else "(str.++ " + " ".join(parts) + ")"


def z3_equal(a, b, variables):
    """Decides, for all values of the variables, rope a == rope b. Returns (equal, witness)."""
    smt = "".join("(declare-const v_%s String)\n" % v for v in variables)
    smt += "(assert (not (= %s %s)))\n(check-sat)\n" % (rope_term(a), rope_term(b))
    if variables:
        smt += "(get-value (%s))\n" % " ".join("v_" + v for v in variables)
    r = subprocess.run(["z3", "-in", "-T:20"], input=smt, capture_output=True, text=True)
    first = (r.stdout.strip().splitlines() or ["?"])[0]
    if first == "unsat":
        return True, None, smt
    if first == "sat":
        return False, r.stdout.strip(), smt
    return None, r.stdout + r.stderr, smt


def classify(rope, scope, delim, op):
    """Names the way a wrong topic differs from the specification (used as finding fingerprint)."""
    if rope == spec_rope(scope, delim, op, titled=False) and title(scope["name"]) != scope["name"]:
        return "scope-name-not-title-cased"
    alt = []
    if scope["prefix"]:
        alt += prefix_rope(scope["prefix"]) + [("lit", delim)]
    alt += [("lit", title(scope["name"])), ("lit", "."), ("lit", op)]
    if rope == norm(alt) and delim != ".":
        return "literal-dot-between-scope-and-operation"
    return "other"


GO_HARNESS = '''package %(pkg)s

import (
	"github.com/apache/thrift/lib/go/thrift"
	frugal "github.com/Workiva/frugal/lib/go"
)

// captures the topics the generated code hands to the transports
type verifTopics struct {
	published, subscribed []string
}

func (t *verifTopics) GetTransport() frugal.FPublisherTransport { return &verifPubT{t} }

type verifPubT struct{ t *verifTopics }

func (p *verifPubT) Open() error                { return nil }
func (p *verifPubT) Close() error               { return nil }
func (p *verifPubT) IsOpen() bool               { return true }
func (p *verifPubT) GetPublishSizeLimit() uint  { return 0 }
func (p *verifPubT) Publish(topic string, data []byte) error {
	p.t.published = append(p.t.published, topic)
	return nil
}

type verifSubF struct{ t *verifTopics }

func (f *verifSubF) GetTransport() frugal.FSubscriberTransport { return &verifSubT{f.t} }

type verifSubT struct{ t *verifTopics }

func (s *verifSubT) Subscribe(topic string, cb frugal.FAsyncCallback) error {
	s.t.subscribed = append(s.t.subscribed, topic)
	return nil
}
func (s *verifSubT) Unsubscribe() error { return nil }
func (s *verifSubT) IsSubscribed() bool { return true }

func verifProvider(t *verifTopics) *frugal.FScopeProvider {
	return frugal.NewFScopeProvider(t, &verifSubF{t}, frugal.NewFProtocolFactory(thrift.NewTBinaryProtocolFactoryDefault()))
}
'''

GO_ENTRY = '''
func init() { verifHarnesses["VerifC08_%(scope)s"] = VerifC08_%(scope)s }

// scope %(scope)s prefix %(prefix)s, delimiter %(delim)s
func VerifC08_%(scope)s() {
	t := &verifTopics{}
	provider := verifProvider(t)
%(vardecl)s
	pub := New%(title)sPublisher(provider)
	verifAssert(pub.Open() == nil, "publisher opens")
	verifAssert(pub.PublishCreated(frugal.NewFContext("c")%(args)s, &Ev{}) == nil, "publish succeeds")
	sub := New%(title)sSubscriber(provider)
	_, err := sub.SubscribeCreated(%(args2)sfunc(frugal.FContext, *Ev) {})
	verifAssert(err == nil, "subscribe succeeds")
	want := %(want)s
	verifAssert(len(t.published) == 1 && len(t.subscribed) == 1, "one publish and one subscribe reach the transports")
	verifAssert(t.published[0] == t.subscribed[0], "publisher and subscriber use the same topic")
	verifAssert(t.published[0] == want, "the topic is prefix, scope and operation joined by the delimiter")
	verifReach("end")
}
'''


def go_quote(s):
    return json.dumps(s)


def go_harness(pkg, scopes, delim):
    src = GO_HARNESS % {"pkg": pkg}
    for sc in scopes:
        vs = prefix_vars(sc["prefix"])
        want = " + ".join(go_quote(v) if k == "lit" else v for k, v in spec_rope(sc, delim, "Created")) or '""'
        src += GO_ENTRY % {
            "scope": sc["name"], "title": sc.get("go_type", title(sc["name"])), "prefix": sc["prefix"] or "(none)", "delim": delim,
            "vardecl": "\n".join("\t%s := verifStr(verifChoice(3))" % v for v in vs),
            "args": "".join(", " + v for v in vs), "args2": "".join(v + ", " for v in vs), "want": want}
    return src


def run(prop, spec, tier, scratch, known, vcheck):
    t0 = time.time()
    inconclusive, lines, violations = [], [], []
    samples, queries, programs = [], 0, 0
    exe = genpipe.build_compiler(scratch)
    mod = genpipe.go_module(scratch)
    go_jobs = []
    for ci, case in enumerate(cases(tier)):
        delim = case["delim"]
        pkg = "c08d%d" % ci
        cdir = os.path.join(scratch, "case%d" % ci)
        os.makedirs(cdir)
        idl = os.path.join(cdir, pkg + ".frugal")
        write_idl(idl, pkg, case["scopes"])
        rc, msg = genpipe.run_frugal(exe, idl, "go", mod, delim)
        if rc != 0:
            inconclusive.append("compiler failed for go delim %r: %s" % (delim, msg[-300:]))
        # ---- Go: symbolic execution of the generated code ----
        hdir = os.path.join(scratch, "harness_" + pkg)
        os.makedirs(hdir)
        genpipe.sync_rt(VERIF, hdir, pkg)
        for sc in case["scopes"]:
            gf = os.path.join(mod, pkg, "f_%s_scope.go" % sc["name"].lower())
            m = re.search(r"func New(\w+)Publisher\(", open(gf).read()) if os.path.exists(gf) else None
            if not m:
                inconclusive.append("no generated Go publisher constructor found for scope %s" % sc["name"])
            sc["go_type"] = m.group(1) if m else title(sc["name"])
        open(os.path.join(hdir, "zz_verif_c08.go"), "w").write(go_harness(pkg, case["scopes"], delim))
        group = {"dir": os.path.join(mod, pkg), "overlay": hdir}
        for sc in case["scopes"]:
            programs += 1
            go_jobs.append({"group": group, "entry": {"name": "VerifC08_" + sc["name"], "flags": []}, "tier": tier, "params": [0], "scratch": scratch, "prop": prop,
                            "case": {"delim": delim, "scope": sc}})
        # ---- Java / Dart / Python: extraction + string solver ----
        for sc in case["scopes"]:
            vs = prefix_vars(sc["prefix"])
            T = title(sc["name"])
            want = spec_rope(sc, delim, "Created")
            # one IDL per scope for the other targets, so that the emitted file is found without
            # relying on any naming helper of the generators
            sdir = os.path.join(cdir, "scope_" + sc["name"])
            os.makedirs(sdir)
            sidl = os.path.join(sdir, "one.frugal")
            write_idl(sidl, "onepkg", [sc])
            outs = {}
            for gen in ["java", "dart", "py", "py:asyncio", "py:tornado"]:
                outs[gen] = os.path.join(sdir, "out_" + gen.replace(":", "_"))
                rc, msg = genpipe.run_frugal(exe, sidl, gen, outs[gen], delim)
                if rc != 0:
                    inconclusive.append("compiler failed for %s scope %s delim %r: %s" % (gen, sc["name"], delim, msg[-300:]))

            def find(root, pattern):
                hits = []
                for dp, _, fs in os.walk(root):
                    for f in fs:
                        if re.search(pattern, f):
                            hits.append(os.path.join(dp, f))
                return hits[0] if len(hits) == 1 else os.path.join(root, "<%d files match %s>" % (len(hits), pattern))
            files = {
                "java-publisher": ("java", find(outs["java"], r"Publisher\.java$"), "publishCreated("),
                "java-subscriber": ("java", find(outs["java"], r"Subscriber\.java$"), "subscribeCreated("),
                "dart-publisher": ("dart", find(outs["dart"], r"_scope\.dart$"), "publishCreated("),
                "dart-subscriber": ("dart", find(outs["dart"], r"_scope\.dart$"), "subscribeCreated("),
                "py-publisher": ("py", find(outs["py"], r"_publisher\.py$"), "def _publish_Created("),
                "py-asyncio-publisher": ("py", find(outs["py:asyncio"], r"_publisher\.py$"), "def _publish_Created("),
                "py-asyncio-subscriber": ("py", find(outs["py:asyncio"], r"_subscriber\.py$"), "def subscribe_Created("),
                "py-tornado-publisher": ("py", find(outs["py:tornado"], r"_publisher\.py$"), "def _publish_Created("),
                "py-tornado-subscriber": ("py", find(outs["py:tornado"], r"_subscriber\.py$"), "def subscribe_Created("),
            }
            for target, (lang, path, marker) in files.items():
                programs += 1
                try:
                    text = open(path).read()
                    rope = extract(text, lang, vs, marker)
                except (OSError, ExtractError) as e:
                    inconclusive.append("cannot extract the topic of %s for scope %s: %s" % (target, sc["name"], e))
                    continue
                eq, witness, smt = z3_equal(rope, want, vs)
                queries += 1
                if len(samples) < 8:
                    samples.append({"target": target, "scope": sc["name"], "prefix": sc["prefix"], "delim": delim, "extracted_rope": rope, "spec_rope": want, "z3": "unsat" if eq else "sat"})
                if eq is None:
                    inconclusive.append("z3 gave no answer for %s/%s: %s" % (target, sc["name"], witness[-200:]))
                elif not eq:
                    cls = classify(rope, sc, delim, "Created")
                    fam = target.split("-")[0] if not target.startswith("py-") else "py"
                    violations.append({"property": prop, "harness": "c08-extract", "kind": "topic", "label": cls, "site": fam,
                                       "fingerprint": "c08|%s|%s" % (fam, cls), "detail": "scope %s prefix %s delim %r: %s generates %s, specification %s; z3 witness %s" % (
                                           sc["name"], sc["prefix"], delim, target, rope, want, (witness or "").replace("\n", " ")[:200]),
                                       "case": {"delim": delim, "scope": sc, "target": target}, "smt": smt})
    # ---- one recursive run (-r) over a program that includes another one declaring a scope of the
    # SAME name with a different prefix: generator state must not leak from one file to the next ----
    for ci, case in enumerate(cases(tier)):
        if tier == "quick" and ci > 0:
            break
        delim = case["delim"]
        rdir = os.path.join(scratch, "recursive%d" % ci)
        os.makedirs(rdir)
        pair = {"c08rbase": {"name": "Events", "prefix": "v1.{tenant}"}, "c08rmain": {"name": "Events", "prefix": "v2.{tenant}"}}
        write_idl(os.path.join(rdir, "c08rbase.frugal"), "c08rbase", [pair["c08rbase"]])
        write_idl(os.path.join(rdir, "c08rmain.frugal"), "c08rmain", [pair["c08rmain"]])
        txt = open(os.path.join(rdir, "c08rmain.frugal")).read()
        open(os.path.join(rdir, "c08rmain.frugal"), "w").write('include "c08rbase.frugal"\n' + txt)
        for gen in ["java", "dart", "py", "py:asyncio", "py:tornado"]:
            out = os.path.join(rdir, "out_" + gen.replace(":", "_"))
            rc, msg = genpipe.run_frugal(exe, os.path.join(rdir, "c08rmain.frugal"), gen, out, delim, recursive=True)
            if rc != 0:
                inconclusive.append("compiler failed for %s (recursive pair) delim %r: %s" % (gen, delim, msg[-300:]))
                continue
            for pkg, sc in pair.items():
                vs = prefix_vars(sc["prefix"])
                want = spec_rope(sc, delim, "Created")

                def findp(pattern):
                    hits = []
                    for dp, _, fs in os.walk(out):
                        for f in fs:
                            if re.search(pattern, f) and pkg in os.path.join(dp, f):
                                hits.append(os.path.join(dp, f))
                    return hits[0] if len(hits) == 1 else os.path.join(out, "<%d files match %s in %s>" % (len(hits), pattern, pkg))
                if gen == "java":
                    targets = {"java-publisher": ("java", findp(r"Publisher\.java$"), "publishCreated("), "java-subscriber": ("java", findp(r"Subscriber\.java$"), "subscribeCreated(")}
                elif gen == "dart":
                    targets = {"dart-publisher": ("dart", findp(r"_scope\.dart$"), "publishCreated("), "dart-subscriber": ("dart", findp(r"_scope\.dart$"), "subscribeCreated(")}
                else:
                    fam = "py" + gen[2:].replace(":", "-")
                    targets = {fam + "-publisher": ("py", findp(r"_publisher\.py$"), "def _publish_Created(")}
                    if gen != "py":
                        targets[fam + "-subscriber"] = ("py", findp(r"_subscriber\.py$"), "def subscribe_Created(")
                for target, (lang, path, mark) in targets.items():
                    programs += 1
                    try:
                        rope = extract(open(path).read(), lang, vs, mark)
                    except (OSError, ExtractError) as e:
                        inconclusive.append("cannot extract the topic of %s for %s in the recursive pair: %s" % (target, pkg, e))
                        continue
                    eq, witness, smt = z3_equal(rope, want, vs)
                    queries += 1
                    if eq is None:
                        inconclusive.append("z3 gave no answer for %s/%s (recursive pair): %s" % (target, pkg, witness[-200:]))
                    elif not eq:
                        fam = target.split("-")[0] if not target.startswith("py-") else "py"
                        violations.append({"property": prop, "harness": "c08-extract", "kind": "topic", "label": "recursive-run-state-leak", "site": fam,
                                           "fingerprint": "c08|%s|recursive-run-state-leak" % fam,
                                           "detail": "recursive run, file %s.frugal scope %s prefix %s delim %r: %s generates %s, specification %s; z3 witness %s" % (
                                               pkg, sc["name"], sc["prefix"], delim, target, rope, want, (witness or "").replace("\n", " ")[:200]),
                                           "case": {"delim": delim, "scope": sc, "target": target, "file": pkg}, "smt": smt})
    # run the Go jobs (one gose process per generated package entry group)
    by_pkg = {}
    for j in go_jobs:
        by_pkg.setdefault(j["group"]["dir"], []).append(j)
    import concurrent.futures

    def run_pkg(jobs):
        g = jobs[0]["group"]
        out = os.path.join(scratch, "res_" + os.path.basename(g["dir"]) + ".json")
        cmd = [vcheck.GOSE, "run", "-dir", g["dir"], "-overlay", g["overlay"], "-property", prop, "-out", out]
        for j in jobs:
            cmd += ["-entry", j["entry"]["name"]]
        r = subprocess.run(cmd, env=genpipe.GOENV, capture_output=True, text=True)
        if not os.path.exists(out):
            return jobs, None, (r.stderr or r.stdout)[-1500:]
        return jobs, json.load(open(out)), ""
    paths = steps = gq = 0
    funcs = {}
    with concurrent.futures.ThreadPoolExecutor(max_workers=8) as ex:
        for jobs, res, err in ex.map(run_pkg, by_pkg.values()):
            if res is None:
                inconclusive.append("gose failed on generated package %s: %s" % (jobs[0]["group"]["dir"], err))
                continue
            for er in res["entries"]:
                paths += er["paths"]
                steps += er["steps"]
                gq += er["sat"] + er["unsat"]
                for f, n in er["funcs"].items():
                    funcs[f] = funcs.get(f, 0) + n
                for ev in er.get("events") or []:
                    inconclusive.append("%s: %s" % (er["entry"], ev))
                if "end" not in (er.get("reach") or []) and not er.get("violations"):
                    inconclusive.append("%s: end not reached" % er["entry"])
                job = [j for j in jobs if j["entry"]["name"] == er["entry"]][0]
                for v in er.get("violations") or []:
                    sc = job["case"]["scope"]
                    cls = "go-publisher-subscriber-differ" if "same topic" in v["label"] else "go-topic-not-spec"
                    v["fingerprint"] = "c08|go|%s" % cls
                    v["detail"] = "scope %s prefix %s delim %r: %s (%s)" % (sc["name"], sc["prefix"], job["case"]["delim"], v["label"], v["detail"])
                    v["case"] = job["case"]
                    v["_job"] = job
                    violations.append(v)
    # classify
    exit_code, new = 0, 0
    os.makedirs(REPLAYS, exist_ok=True)
    seen = set()
    for v in violations:
        fp = v["fingerprint"]
        if fp in seen:
            continue
        seen.add(fp)
        k = vcheck.match_known(known, prop, fp)
        if k:
            lines.append("KNOWN-FINDING: property=%s %s" % (prop, k["what"]))
            continue
        how = "z3 witness for the extracted topic expression (see detail)"
        if "_job" in v:
            job = v.pop("_job")
            v["param"], v["bound"] = 0, 0
            ok, how = vcheck.confirm(prop, job["group"], dict(job["entry"], native=True), v, scratch)
            if not ok:
                inconclusive.append("ENGINE-MISMATCH: Go counterexample %s did not reproduce natively: %s" % (fp, how))
                continue
        path = os.path.join(REPLAYS, "%s-%s.json" % (prop, hashlib.sha1(fp.encode()).hexdigest()[:10]))
        v["confirmed_by"] = how
        json.dump(v, open(path, "w"), indent=1)
        lines.append("VIOLATION property=%s replay=%s" % (prop, path))
        lines.append("  what: %s" % v["detail"][:400])
        new += 1
        exit_code = 1
    if exit_code == 0 and inconclusive:
        exit_code = 2
    ev = {
        "property_id": prop, "tier": tier, "seed": int(os.environ.get("VERIF_SEED", "0") or 0), "level": "translation_validation",
        "coverage": {
            "programs": programs, "disagreements_checked": queries + gq,
            "samples": samples or [{"note": "none"}],
            "cases": [{"delim": c["delim"], "scopes": c["scopes"]} for c in cases(tier)],
            "go_paths": paths, "go_ssa_instructions": steps, "z3_string_queries": queries, "gose_queries": gq,
            "functions_encoded_generated": sorted(f for f in funcs if "verifgen/" in f and "erif" not in f.split("/")[-1])[:60],
            "exhaustive": not inconclusive, "inconclusive": inconclusive[:20],
            "bounds": spec["bounds"][tier],
        },
        "assumptions": spec.get("assumptions", []), "wall_s": round(time.time() - t0, 2), "violations": new,
    }
    return lines, exit_code, ev, inconclusive, "programs=%d z3_string_queries=%d go_paths=%d" % (programs, queries, paths)
