package main

// Virtual time and a model of package context. The clock only moves when the
// scheduler fires a timer; a timer may fire at any scheduling point once it is
// the earliest pending one (timers fire in deadline order).

import (
	"fmt"
	"go/token"
	"go/types"

	"golang.org/x/tools/go/ssa"
)

const timeBaseSec = 63800000000 // seconds since year 1 of the virtual epoch (2022-ish)

func (r *Run) newTimer(d int64, what string, fire func()) *timer {
	if d < 0 {
		d = 0
	}
	tm := &timer{id: len(r.timers), deadline: r.now + d, fire: fire, what: what}
	if r.race != nil {
		tm.vc = r.race.clockOf(r.raceCur()).copyOf()
		r.race.clockOf(r.raceCur())[r.raceCur()]++
	}
	r.timers = append(r.timers, tm)
	return tm
}

func timeValue(now int64) value {
	sec := int64(timeBaseSec) + now/1e9
	nsec := now % 1e9
	// wall: hasMonotonic=0, so wall holds only nanoseconds; ext holds seconds since year 1
	return structure{uint64(nsec), sec, (*value)(nil)}
}

func durationArg(v value, site string) int64 {
	if s, ok := v.(*Sym); ok && R.cfg.DurationWitness && R.pinned == nil {
		// abstraction (opt-in, recorded): a symbolic duration is represented by one
		// witness per sign class instead of every value
		pos := bvCmp("bvslt", mkConst(64, 0), to64(v))
		R.branch(pos, "duration-sign")
		R.markReach("abstraction:duration-witness")
		R.abstractions++
		bits := R.concretizeOpt(s.T, site+"-witness", true)
		w, _ := kindWidth(s.K)
		return sext(bits, w)
	}
	return concInt(v, site)
}

// ---- context model ----

type ctxObj struct {
	parent   *ctxObj
	done     *chanObj
	err      value // iface
	children []*ctxObj
	tm       *timer
	key, val value
	typ      types.Type
	deadline int64
	hasDL    bool
}

func ctxGlobalErr(name string) value {
	pkg := I.prog.ImportedPackage("context")
	g := pkg.Var(name)
	return *R.global(g)
}

func (c *ctxObj) cancel(err value) {
	if c.err != nil {
		return
	}
	c.err = err
	if c.tm != nil {
		c.tm.stopped = true
	}
	if c.done != nil && !c.done.closed {
		c.done.closed = true
		R.raceRelease(c.done)
		for len(c.done.recvq) > 0 {
			w := c.done.recvq[0]
			i := caseIndex(w, c.done, false)
			w.chosen, w.val, w.ok, w.done = i, nil, false, true
			w.remove()
		}
	}
	for _, ch := range c.children {
		ch.cancel(err)
	}
}

func ctxTypeOf(name string, ptr bool) types.Type {
	pkg := I.prog.ImportedPackage("context")
	t := pkg.Type(name).Type()
	if ptr {
		return types.NewPointer(t)
	}
	return t
}

func ctxIface(c *ctxObj) value {
	b := &boundIntrinsic{kind: "context", data: c}
	b.call = func(fr *frame, method string, args []value) value {
		switch method {
		case "Done":
			for p := c; p != nil; p = p.parent {
				if p.done != nil {
					return p.done
				}
			}
			return (*chanObj)(nil)
		case "Err":
			schedPoint("ctx.Err")
			for p := c; p != nil; p = p.parent {
				if p.err != nil {
					return p.err
				}
			}
			return iface{}
		case "Deadline":
			for p := c; p != nil; p = p.parent {
				if p.hasDL {
					return tuple{timeValue(p.deadline), true}
				}
			}
			return tuple{timeValue(0), false}
		case "Value":
			for p := c; p != nil; p = p.parent {
				if p.key != nil && truth(eqv(nil, p.key, args[0]), "ctx.Value") {
					return p.val
				}
			}
			return iface{}
		case "String":
			return "context"
		}
		panic(engineErr{"context method " + method})
	}
	return iface{t: c.typ, v: b}
}

func ctxFromValue(v value) *ctxObj {
	it, ok := v.(iface)
	if !ok || it.t == nil {
		panic(targetPanic{iface{types.Typ[types.String], "cannot create context from nil parent"}})
	}
	b, ok := it.v.(*boundIntrinsic)
	if !ok || b.kind != "context" {
		panic(engineErr{"context model: parent is a user-defined context implementation"})
	}
	return b.data.(*ctxObj)
}

func init() {
	background := func(fr *frame, a []value) value {
		return ctxIface(&ctxObj{typ: ctxTypeOf("backgroundCtx", false)})
	}
	intrinsics["context.Background"] = background
	intrinsics["context.TODO"] = background
	withCancel := func(parent *ctxObj) (*ctxObj, value) {
		c := &ctxObj{parent: parent, done: newChan(0), typ: ctxTypeOf("cancelCtx", true)}
		for p := parent; p != nil; p = p.parent {
			if p.err != nil {
				c.cancel(p.err)
				break
			}
		}
		parent.children = append(parent.children, c)
		cancelFn := &hostFunc{name: "cancel", f: func(fr *frame, args []value) value {
			schedPoint("ctx.cancel")
			c.cancel(ctxGlobalErr("Canceled"))
			return nil
		}}
		return c, cancelFn
	}
	intrinsics["context.WithCancel"] = func(fr *frame, a []value) value {
		c, fn := withCancel(ctxFromValue(a[0]))
		return tuple{ctxIface(c), fn}
	}
	intrinsics["context.WithTimeout"] = func(fr *frame, a []value) value {
		d := durationArg(a[1], "context.WithTimeout")
		c, fn := withCancel(ctxFromValue(a[0]))
		c.typ = ctxTypeOf("timerCtx", true)
		exceeded := ctxGlobalErr("DeadlineExceeded")
		c.deadline, c.hasDL = R.now+d, true
		if d <= 0 {
			c.cancel(exceeded)
		} else {
			c.tm = R.newTimer(d, fmt.Sprintf("context deadline %dns", d), func() {
				c.cancel(exceeded)
			})
		}
		return tuple{ctxIface(c), fn}
	}
	intrinsics["context.WithValue"] = func(fr *frame, a []value) value {
		p := ctxFromValue(a[0])
		c := &ctxObj{parent: p, key: a[1], val: a[2], typ: ctxTypeOf("valueCtx", true)}
		return ctxIface(c)
	}

	intrinsics["time.Now"] = func(fr *frame, a []value) value { return timeValue(R.now) }
	intrinsics["time.Since"] = func(fr *frame, a []value) value {
		t := a[0].(structure)
		then := (t[1].(int64)-timeBaseSec)*1e9 + int64(t[0].(uint64)&(1<<30-1))
		return R.now - then
	}
	intrinsics["time.After"] = func(fr *frame, a []value) value {
		d := durationArg(a[0], "time.After")
		ch := newChan(1)
		R.newTimer(d, fmt.Sprintf("time.After %dns", d), func() {
			if len(ch.recvq) > 0 || len(ch.buf) < ch.cap {
				doSend(ch, timeValue(R.now))
			}
		})
		return ch
	}
	redirects["time.Sleep"] = "verifTimeSleep"
	verifIntrinsics["verifRealSleep"] = func(fr *frame, a []value) value {
		d := durationArg(a[0], "time.Sleep")
		R.sleeps = append(R.sleeps, d)
		if d <= 0 {
			return nil
		}
		fired := false
		R.newTimer(d, fmt.Sprintf("time.Sleep %dns", d), func() { fired = true })
		blockUntil(func() bool { return fired }, fmt.Sprintf("time.Sleep(%d)", d))
		return nil
	}
	intrinsics["time.AfterFunc"] = func(fr *frame, a []value) value {
		d := durationArg(a[0], "time.AfterFunc")
		f := a[1]
		tm := R.newTimer(d, "time.AfterFunc", func() {
			spawnThreadNoYield(f, nil, "time.AfterFunc")
		})
		return timerHandle(tm)
	}
	intrinsics["time.NewTimer"] = func(fr *frame, a []value) value {
		d := durationArg(a[0], "time.NewTimer")
		ch := newChan(1)
		tm := R.newTimer(d, "time.NewTimer", func() {
			if len(ch.buf) < ch.cap || len(ch.recvq) > 0 {
				doSend(ch, timeValue(R.now))
			}
		})
		h := timerHandle(tm).(*value)
		st := (*h).(structure)
		st[0] = ch
		return h
	}
	intrinsics["(*time.Timer).Stop"] = func(fr *frame, a []value) value {
		tm := R.timerOf[ptrArg(a[0])]
		if tm == nil {
			return false
		}
		was := !tm.fired && !tm.stopped
		tm.stopped = true
		return was
	}
	intrinsics["(*time.Timer).Reset"] = func(fr *frame, a []value) value {
		panic(engineErr{"time.Timer.Reset not modelled"})
	}
}

// timerHandle builds an interpreted *time.Timer whose identity maps to tm.
func timerHandle(tm *timer) value {
	pkg := I.prog.ImportedPackage("time")
	t := pkg.Type("Timer").Type()
	var cell value = zero(t)
	p := &cell
	R.timerOf[p] = tm
	return p
}

func spawnThreadNoYield(fn value, args []value, from string) {
	name := from
	switch f := fn.(type) {
	case *ssa.Function:
		name = f.String()
	case *closure:
		name = f.Fn.String()
	}
	t := R.newThread(name)
	R.raceSpawn(t.id)
	R.startThread(t, func() { call(nil, token.NoPos, fn, args) })
}
