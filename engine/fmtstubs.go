package main

// fmt, errors and a few other library boundaries.

import (
	"fmt"
	"go/token"
	"go/types"
	"strings"

	"golang.org/x/tools/go/ssa"
)

// hostArg converts an interpreted value into something host fmt can print.
// Symbolic parts print as placeholders (messages are never parsed by the code
// under test; where a formatted string matters, fmtParts keeps the bytes).
func hostArg(fr *frame, v value) interface{} {
	switch x := v.(type) {
	case iface:
		if x.t == nil {
			return nil
		}
		if s, ok := callStringer(fr, x); ok {
			return stringerText(s)
		}
		return hostArg(fr, x.v)
	case bool, int, int8, int16, int32, int64, uint, uint8, uint16, uint32, uint64, uintptr, float32, float64, string, complex64, complex128:
		return x
	case symstr, fmtstr:
		return toGoString(x)
	case *Sym:
		return "<sym>"
	case []value:
		bs := make([]byte, 0, len(x))
		for _, e := range x {
			b, ok := e.(uint8)
			if !ok {
				return toString(v)
			}
			bs = append(bs, b)
		}
		return bs
	case *value:
		if x == nil {
			return "<nil>"
		}
		return fmt.Sprintf("%p", x)
	}
	return toString(v)
}

type stringerText string

func (s stringerText) String() string { return string(s) }
func (s stringerText) Error() string  { return string(s) }

// callStringer invokes Error() or String() of the dynamic type, if present.
func callStringer(fr *frame, x iface) (string, bool) {
	for _, name := range []string{"Error", "String"} {
		ms := I.prog.MethodSets.MethodSet(x.t)
		sel := ms.Lookup(nil, name)
		if sel == nil {
			continue
		}
		sig := sel.Type().(*types.Signature)
		if sig.Params().Len() != 0 || sig.Results().Len() != 1 {
			continue
		}
		fn := I.prog.MethodValue(sel)
		if fn == nil {
			continue
		}
		if p, ok := x.v.(*value); ok && p == nil {
			return "<nil>", true
		}
		r := callSSA(fr, fn, []value{x.v}, nil)
		return toGoString(r), true
	}
	return "", false
}

// sprintf formats with host fmt, but keeps symbolic strings intact for plain
// %s / %v verbs by splitting the format at those verbs.
func sprintf(fr *frame, format string, args []value) value {
	var parts []value // strings / symstr
	argi := 0
	flush := func(f string, a []value) {
		if f == "" {
			return
		}
		ha := make([]interface{}, len(a))
		for i, x := range a {
			ha[i] = hostArg(fr, x)
		}
		parts = append(parts, fmt.Sprintf(f, ha...))
	}
	cur := ""
	var curArgs []value
	for i := 0; i < len(format); {
		if format[i] != '%' {
			cur += string(format[i])
			i++
			continue
		}
		// parse verb
		j := i + 1
		for j < len(format) && strings.IndexByte("+-# 0123456789.*[]", format[j]) >= 0 {
			j++
		}
		if j >= len(format) {
			cur += format[i:]
			break
		}
		verb := format[i : j+1]
		if format[j] == '%' {
			cur += verb
			i = j + 1
			continue
		}
		if argi < len(args) {
			a := args[argi]
			if (verb == "%s" || verb == "%v") && isSymStringArg(a) {
				flush(cur, curArgs)
				cur, curArgs = "", nil
				parts = append(parts, symStringOf(a))
				argi++
				i = j + 1
				continue
			}
			if verb == "%w" {
				verb = "%v"
			}
			curArgs = append(curArgs, a)
			argi++
		}
		cur += verb
		i = j + 1
	}
	flush(cur, curArgs)
	var out []value
	for _, p := range parts {
		out = append(out, strBytes(p)...)
	}
	return mkStr(out)
}

func isSymStringArg(a value) bool {
	if x, ok := a.(iface); ok {
		a = x.v
	}
	switch a.(type) {
	case symstr, fmtstr:
		return true
	}
	return false
}

func symStringOf(a value) value {
	if x, ok := a.(iface); ok {
		a = x.v
	}
	return a
}

func variadic(v value) []value {
	if v == nil {
		return nil
	}
	return v.([]value)
}

func init() {
	intrinsics["fmt.Sprintf"] = func(fr *frame, a []value) value {
		return sprintf(fr, goStr(a[0], "fmt"), variadic(a[1]))
	}
	intrinsics["fmt.Errorf"] = func(fr *frame, a []value) value {
		format := goStr(a[0], "fmt")
		args := variadic(a[1])
		msg := sprintf(fr, format, args)
		if k := strings.Index(format, "%w"); k >= 0 {
			// find the wrapped operand: count verbs before %w
			n := 0
			for i := 0; i < k; i++ {
				if format[i] == '%' {
					if i+1 < len(format) && format[i+1] == '%' {
						i++
						continue
					}
					n++
				}
			}
			if n < len(args) {
				if w, ok := args[n].(iface); ok && w.t != nil {
					pkg := I.prog.ImportedPackage("fmt")
					t := pkg.Type("wrapError").Type()
					var cell value = structure{msg, w}
					return iface{t: types.NewPointer(t), v: &cell}
				}
			}
		}
		return makeError(msg)
	}
	sprint := func(sep bool, nl bool) externalFn {
		return func(fr *frame, a []value) value {
			var out []value
			for i, x := range variadic(a[0]) {
				if i > 0 && sep {
					out = append(out, uint8(' '))
				}
				if isSymStringArg(x) {
					out = append(out, strBytes(symStringOf(x))...)
				} else {
					out = append(out, strBytes(fmt.Sprint(hostArg(fr, x)))...)
				}
			}
			if nl {
				out = append(out, uint8('\n'))
			}
			return mkStr(out)
		}
	}
	intrinsics["fmt.Sprint"] = sprint(false, false)
	intrinsics["fmt.Sprintln"] = sprint(true, true)
	nop := func(fr *frame, a []value) value { return tuple{0, iface{}} }
	intrinsics["fmt.Printf"] = nop
	intrinsics["fmt.Println"] = nop
	intrinsics["fmt.Print"] = nop
	intrinsics["fmt.Fprintf"] = func(fr *frame, a []value) value {
		s := sprintf(fr, goStr(a[1], "fmt"), variadic(a[2]))
		return writeTo(fr, a[0], s)
	}
	intrinsics["fmt.Fprint"] = func(fr *frame, a []value) value {
		return writeTo(fr, a[0], sprint(false, false)(fr, a[1:]))
	}
	intrinsics["fmt.Fprintln"] = func(fr *frame, a []value) value {
		return writeTo(fr, a[0], sprint(true, true)(fr, a[1:]))
	}

	// errors.Is / errors.As walk the Unwrap chain of interpreted errors.
	intrinsics["errors.Is"] = func(fr *frame, a []value) value {
		err, target := a[0].(iface), a[1].(iface)
		for depth := 0; depth < 50; depth++ {
			if err.t == nil {
				return target.t == nil
			}
			if comparableType(err.t) && truth(eqv(nil, err, target), "errors.Is") {
				return true
			}
			if fn := methodOf(err.t, "Is", 1); fn != nil {
				if truth(callSSA(fr, fn, []value{err.v, target}, nil), "errors.Is") {
					return true
				}
			}
			next, ok := unwrap(fr, err)
			if !ok {
				return false
			}
			err = next
		}
		return false
	}
	intrinsics["errors.As"] = func(fr *frame, a []value) value {
		err := a[0].(iface)
		tgt := a[1].(iface)
		pt, ok := tgt.t.Underlying().(*types.Pointer)
		if !ok {
			panic(targetPanic{iface{types.Typ[types.String], "errors: target must be a non-nil pointer"}})
		}
		want := pt.Elem()
		cell := tgt.v.(*value)
		for depth := 0; depth < 50 && err.t != nil; depth++ {
			if it, ok := want.Underlying().(*types.Interface); ok {
				if types.Implements(err.t, it) {
					*cell = err
					return true
				}
			} else if types.Identical(err.t, want) {
				*cell = err.v
				return true
			}
			if fn := methodOf(err.t, "As", 1); fn != nil {
				if truth(callSSA(fr, fn, []value{err.v, tgt}, nil), "errors.As") {
					return true
				}
			}
			next, ok := unwrap(fr, err)
			if !ok {
				return false
			}
			err = next
		}
		return false
	}
	intrinsics["errors.Unwrap"] = func(fr *frame, a []value) value {
		next, ok := unwrap(fr, a[0].(iface))
		if !ok {
			return iface{}
		}
		return next
	}
}

func comparableType(t types.Type) bool { return types.Comparable(t) }

func methodOf(t types.Type, name string, nparams int) *ssa.Function {
	ms := I.prog.MethodSets.MethodSet(t)
	sel := ms.Lookup(nil, name)
	if sel == nil {
		return nil
	}
	sig := sel.Type().(*types.Signature)
	if sig.Params().Len() != nparams {
		return nil
	}
	return I.prog.MethodValue(sel)
}

func unwrap(fr *frame, err iface) (iface, bool) {
	if err.t == nil {
		return iface{}, false
	}
	fn := methodOf(err.t, "Unwrap", 0)
	if fn == nil {
		return iface{}, false
	}
	if fn.Signature.Results().Len() != 1 {
		return iface{}, false
	}
	r := callSSA(fr, fn, []value{err.v}, nil)
	next, ok := r.(iface)
	if !ok || next.t == nil {
		return iface{}, false
	}
	return next, true
}

// writeTo calls w.Write(p) on an interpreted io.Writer.
func writeTo(fr *frame, w value, s value) value {
	wi := w.(iface)
	if wi.t == nil {
		panic(nilDeref())
	}
	fn := methodOf(wi.t, "Write", 1)
	if fn == nil {
		panic(engineErr{"writeTo: no Write method on " + wi.t.String()})
	}
	return call(fr, token.NoPos, fn, []value{wi.v, append([]value(nil), strBytes(s)...)})
}
