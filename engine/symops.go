package main

// Symbolic scalars and the symbolic cases of the interpreter's operators.

import (
	"fmt"
	"go/token"
	"go/types"
)

// Sym is a symbolic scalar: a bool or an integer of a Go basic kind.
type Sym struct {
	T *Term
	K types.BasicKind
}

// symstr is a string of known length whose bytes may be symbolic
// (each element is uint8 or *Sym of kind Uint8).
type symstr []value

func kindWidth(k types.BasicKind) (w int, signed bool) {
	switch k {
	case types.Bool, types.UntypedBool:
		return 0, false
	case types.Int8:
		return 8, true
	case types.Int16:
		return 16, true
	case types.Int32, types.UntypedRune:
		return 32, true
	case types.Int64, types.Int, types.UntypedInt:
		return 64, true
	case types.Uint8:
		return 8, false
	case types.Uint16:
		return 16, false
	case types.Uint32:
		return 32, false
	case types.Uint64, types.Uint, types.Uintptr:
		return 64, false
	}
	return -1, false
}

func basicKind(t types.Type) types.BasicKind {
	if b, ok := t.Underlying().(*types.Basic); ok {
		return b.Kind()
	}
	return types.Invalid
}

// nativeKind returns the basic kind of a concrete scalar value.
func nativeKind(v value) types.BasicKind {
	switch v.(type) {
	case bool:
		return types.Bool
	case int:
		return types.Int
	case int8:
		return types.Int8
	case int16:
		return types.Int16
	case int32:
		return types.Int32
	case int64:
		return types.Int64
	case uint:
		return types.Uint
	case uint8:
		return types.Uint8
	case uint16:
		return types.Uint16
	case uint32:
		return types.Uint32
	case uint64:
		return types.Uint64
	case uintptr:
		return types.Uintptr
	}
	return types.Invalid
}

func nativeBits(v value) uint64 {
	switch x := v.(type) {
	case bool:
		if x {
			return 1
		}
		return 0
	case int:
		return uint64(x)
	case int8:
		return uint64(x)
	case int16:
		return uint64(x)
	case int32:
		return uint64(x)
	case int64:
		return uint64(x)
	case uint:
		return uint64(x)
	case uint8:
		return uint64(x)
	case uint16:
		return uint64(x)
	case uint32:
		return uint64(x)
	case uint64:
		return x
	case uintptr:
		return uint64(x)
	}
	panic(engineErr{fmt.Sprintf("nativeBits: %T", v)})
}

func mkNative(k types.BasicKind, bits uint64) value {
	switch k {
	case types.Bool, types.UntypedBool:
		return bits&1 == 1
	case types.Int, types.UntypedInt:
		return int(bits)
	case types.Int8:
		return int8(bits)
	case types.Int16:
		return int16(bits)
	case types.Int32, types.UntypedRune:
		return int32(bits)
	case types.Int64:
		return int64(bits)
	case types.Uint:
		return uint(bits)
	case types.Uint8:
		return uint8(bits)
	case types.Uint16:
		return uint16(bits)
	case types.Uint32:
		return uint32(bits)
	case types.Uint64:
		return uint64(bits)
	case types.Uintptr:
		return uintptr(bits)
	}
	panic(engineErr{fmt.Sprintf("mkNative kind %v", k)})
}

// termOf lifts a scalar value (native or symbolic) to a term.
func termOf(v value) (*Term, types.BasicKind) {
	if s, ok := v.(*Sym); ok {
		return s.T, s.K
	}
	k := nativeKind(v)
	if k == types.Invalid {
		panic(engineErr{fmt.Sprintf("termOf: not a scalar: %T", v)})
	}
	w, _ := kindWidth(k)
	if w == 0 {
		return mkBool(v.(bool)), k
	}
	return mkConst(w, nativeBits(v)), k
}

// symVal wraps a term as a value, returning a native value when it is constant.
func symVal(t *Term, k types.BasicKind) value {
	if t.isConst() {
		return mkNative(k, t.val)
	}
	return &Sym{t, k}
}

func isSym(v value) bool {
	_, ok := v.(*Sym)
	return ok
}

// hasSym reports whether v contains a symbolic component relevant for comparison.
func hasSym(v value) bool {
	switch x := v.(type) {
	case *Sym, symstr, fmtstr:
		return true
	case structure:
		for _, e := range x {
			if hasSym(e) {
				return true
			}
		}
	case array:
		for _, e := range x {
			if hasSym(e) {
				return true
			}
		}
	case iface:
		return hasSym(x.v)
	}
	return false
}

func symBinop(op token.Token, t types.Type, x, y value) value {
	a, ka := termOf(x)
	b, kb := termOf(y)
	w, signed := kindWidth(ka)
	if w < 0 {
		panic(engineErr{fmt.Sprintf("symBinop on kind %v", ka)})
	}
	if w == 0 { // booleans
		switch op {
		case token.EQL:
			return symVal(mkBoolEq(a, b), types.Bool)
		case token.NEQ:
			return symVal(mkNot(mkBoolEq(a, b)), types.Bool)
		case token.LAND, token.AND:
			return symVal(mkAnd(a, b), types.Bool)
		case token.LOR, token.OR:
			return symVal(mkOr(a, b), types.Bool)
		}
		panic(engineErr{"symBinop bool op " + op.String()})
	}
	switch op {
	case token.SHL, token.SHR:
		// shift count may have a different (unsigned or signed) type
		wb, _ := kindWidth(kb)
		var guard *Term
		if wb > w {
			guard = bvCmp("bvule", mkConst(wb, uint64(w)), b) // count >= width
			b = mkExtract(w-1, 0, b)
		} else if wb < w {
			b = mkZext(b, w)
		}
		var r *Term
		switch {
		case op == token.SHL:
			r = bvBin("bvshl", a, b)
		case signed:
			r = bvBin("bvashr", a, b)
		default:
			r = bvBin("bvlshr", a, b)
		}
		if guard != nil {
			var over *Term
			if op == token.SHR && signed {
				over = bvBin("bvashr", a, mkConst(w, uint64(w-1)))
			} else {
				over = mkConst(w, 0)
			}
			r = mkIte(guard, over, r)
		}
		return symVal(r, ka)
	}
	if wb, _ := kindWidth(kb); wb != w {
		panic(engineErr{fmt.Sprintf("symBinop %s width mismatch %v %v", op, ka, kb)})
	}
	switch op {
	case token.ADD:
		return symVal(bvBin("bvadd", a, b), ka)
	case token.SUB:
		return symVal(bvBin("bvsub", a, b), ka)
	case token.MUL:
		return symVal(bvBin("bvmul", a, b), ka)
	case token.QUO, token.REM:
		zero := bvCmp("=", b, mkConst(w, 0))
		if R.branch(zero, "div-by-zero") {
			panic(targetRuntimeError("integer divide by zero"))
		}
		var o string
		switch {
		case op == token.QUO && signed:
			o = "bvsdiv"
		case op == token.QUO:
			o = "bvudiv"
		case signed:
			o = "bvsrem"
		default:
			o = "bvurem"
		}
		return symVal(bvBin(o, a, b), ka)
	case token.AND:
		return symVal(bvBin("bvand", a, b), ka)
	case token.OR:
		return symVal(bvBin("bvor", a, b), ka)
	case token.XOR:
		return symVal(bvBin("bvxor", a, b), ka)
	case token.AND_NOT:
		return symVal(bvBin("bvand", a, mkBvNot(b)), ka)
	case token.EQL:
		return symVal(bvCmp("=", a, b), types.Bool)
	case token.NEQ:
		return symVal(mkNot(bvCmp("=", a, b)), types.Bool)
	case token.LSS:
		if signed {
			return symVal(bvCmp("bvslt", a, b), types.Bool)
		}
		return symVal(bvCmp("bvult", a, b), types.Bool)
	case token.LEQ:
		if signed {
			return symVal(bvCmp("bvsle", a, b), types.Bool)
		}
		return symVal(bvCmp("bvule", a, b), types.Bool)
	case token.GTR:
		if signed {
			return symVal(bvCmp("bvslt", b, a), types.Bool)
		}
		return symVal(bvCmp("bvult", b, a), types.Bool)
	case token.GEQ:
		if signed {
			return symVal(bvCmp("bvsle", b, a), types.Bool)
		}
		return symVal(bvCmp("bvule", b, a), types.Bool)
	}
	panic(engineErr{"symBinop: unsupported op " + op.String()})
}

func symUnop(op token.Token, x *Sym) value {
	switch op {
	case token.NOT:
		return symVal(mkNot(x.T), types.Bool)
	case token.SUB:
		return symVal(mkNeg(x.T), x.K)
	case token.XOR:
		return symVal(mkBvNot(x.T), x.K)
	}
	panic(engineErr{"symUnop: " + op.String()})
}

// symConv converts a symbolic scalar to another basic type.
func symConv(tdst types.Type, x *Sym) value {
	kd := basicKind(tdst)
	wd, _ := kindWidth(kd)
	ws, ssigned := kindWidth(x.K)
	if kd == types.String {
		// string(rune/byte): an ASCII code point stays symbolic
		if ws >= 8 {
			ascii := bvCmp("bvult", x.T, mkConst(ws, 0x80))
			if R.branch(ascii, "rune-ascii") {
				return mkStr([]value{symVal(mkExtract(7, 0, x.T), types.Uint8)})
			}
		}
		// otherwise concretize
		v := R.concretize(x.T, "conv-int-to-string")
		return conv(tdst, types.Typ[x.K], mkNative(x.K, v))
	}
	if wd <= 0 || ws <= 0 {
		if kd == types.Float64 || kd == types.Float32 {
			v := R.concretize(x.T, "conv-int-to-float")
			return conv(tdst, types.Typ[x.K], mkNative(x.K, v))
		}
		panic(engineErr{fmt.Sprintf("symConv %v -> %v", x.K, tdst)})
	}
	var t *Term
	switch {
	case wd == ws:
		t = x.T
	case wd < ws:
		t = mkExtract(wd-1, 0, x.T)
	case ssigned:
		t = mkSext(x.T, wd)
	default:
		t = mkZext(x.T, wd)
	}
	return symVal(t, kd)
}

// truth decides a (possibly symbolic) boolean.
func truth(v value, site string) bool {
	switch b := v.(type) {
	case bool:
		return b
	case *Sym:
		return R.branch(b.T, site)
	}
	panic(engineErr{fmt.Sprintf("truth of %T", v)})
}

// concInt turns an integer value into a native int64 (forking if symbolic).
func concInt(v value, site string) int64 {
	if s, ok := v.(*Sym); ok {
		bits := R.concretize(s.T, site)
		w, signed := kindWidth(s.K)
		if signed {
			return sext(bits, w)
		}
		return int64(bits)
	}
	return asInt64(v)
}

// concValue makes a scalar concrete, preserving its kind.
func concValue(v value, site string) value {
	if s, ok := v.(*Sym); ok {
		return mkNative(s.K, R.concretize(s.T, site))
	}
	return v
}

// to64 returns a 64-bit term for an integer value (sign- or zero-extended by kind).
func to64(v value) *Term {
	t, k := termOf(v)
	_, signed := kindWidth(k)
	if signed {
		return mkSext(t, 64)
	}
	return mkZext(t, 64)
}

// checkIndex implements the run-time check 0 <= idx < n and returns the concrete index.
func checkIndex(idx value, n int, what string) int {
	if _, ok := idx.(*Sym); ok {
		i64 := to64(idx)
		inb := mkAnd(bvCmp("bvsle", mkConst(64, 0), i64), bvCmp("bvslt", i64, mkConst(64, uint64(n))))
		if !R.branch(inb, "index-check") {
			panic(targetRuntimeError(fmt.Sprintf("index out of range [sym] with length %d (%s)", n, what)))
		}
		return int(concInt(idx, "index"))
	}
	i := asInt64(idx)
	if i < 0 || i >= int64(n) {
		panic(targetRuntimeError(fmt.Sprintf("index out of range [%d] with length %d", i, n)))
	}
	return int(i)
}

// symSliceBounds checks 0 <= lo <= hi <= max <= cap with symbolic operands and
// returns concrete bounds.
func sliceBounds(lo, hi, max value, Len, Cap int, isString bool) (int, int, int) {
	anySym := isSym(lo) || isSym(hi) || isSym(max)
	get := func(v value, def int) *Term {
		if v == nil {
			return mkConst(64, uint64(def))
		}
		return to64(v)
	}
	capv := Cap
	if isString {
		capv = Len
	}
	if anySym {
		l, h, m := get(lo, 0), get(hi, Len), get(max, capv)
		ok := mkAnd(bvCmp("bvsle", mkConst(64, 0), l),
			mkAnd(bvCmp("bvsle", l, h), mkAnd(bvCmp("bvsle", h, m), bvCmp("bvsle", m, mkConst(64, uint64(capv))))))
		if !R.branch(ok, "slice-check") {
			panic(targetRuntimeError(fmt.Sprintf("slice bounds out of range [sym] with capacity %d", capv)))
		}
	}
	li, hi2, mi := int64(0), int64(Len), int64(capv)
	if lo != nil {
		li = concInt(lo, "slice-lo")
	}
	if hi != nil {
		hi2 = concInt(hi, "slice-hi")
	}
	if max != nil {
		mi = concInt(max, "slice-max")
	}
	if li < 0 || li > hi2 || hi2 > mi || mi > int64(capv) {
		panic(targetRuntimeError(fmt.Sprintf("slice bounds out of range [%d:%d:%d] with capacity %d", li, hi2, mi, capv)))
	}
	return int(li), int(hi2), int(mi)
}

// ---- strings with symbolic bytes ----

func strBytes(v value) []value {
	switch s := v.(type) {
	case string:
		b := make([]value, len(s))
		for i := 0; i < len(s); i++ {
			b[i] = s[i]
		}
		return b
	case symstr:
		return []value(s)
	case fmtstr:
		return strBytes(s.concrete())
	}
	panic(engineErr{fmt.Sprintf("strBytes of %T", v)})
}

// mkStr builds a string value from bytes, native when all bytes are concrete.
func mkStr(b []value) value {
	for _, e := range b {
		if _, ok := e.(*Sym); ok {
			return symstr(append([]value(nil), b...))
		}
	}
	bs := make([]byte, len(b))
	for i, e := range b {
		bs[i] = e.(uint8)
	}
	return string(bs)
}

func strLen(v value) int {
	switch s := v.(type) {
	case string:
		return len(s)
	case symstr:
		return len(s)
	case fmtstr:
		return len(s.concrete())
	}
	panic(engineErr{fmt.Sprintf("strLen of %T", v)})
}

func isStrVal(v value) bool {
	switch v.(type) {
	case string, symstr, fmtstr:
		return true
	}
	return false
}

// strEq returns a bool or *Sym.
func strEq(x, y value) value {
	if fx, ok := x.(fmtstr); ok {
		return fx.eq(y)
	}
	if fy, ok := y.(fmtstr); ok {
		return fy.eq(x)
	}
	a, b := strBytes(x), strBytes(y)
	if len(a) != len(b) {
		return false
	}
	acc := tTrue
	for i := range a {
		ta, _ := termOf(a[i])
		tb, _ := termOf(b[i])
		acc = mkAnd(acc, bvCmp("=", ta, tb))
		if acc.isConst() && acc.val == 0 {
			return false
		}
	}
	return symVal(acc, types.Bool)
}

// strLess returns x < y lexicographically as bool or *Sym.
func strLess(x, y value) value {
	a, b := strBytes(x), strBytes(y)
	// build from the end: less_i = a[i]<b[i] || (a[i]==b[i] && less_{i+1})
	n := len(a)
	if len(b) < n {
		n = len(b)
	}
	acc := mkBool(len(a) < len(b))
	for i := n - 1; i >= 0; i-- {
		ta, _ := termOf(a[i])
		tb, _ := termOf(b[i])
		acc = mkOr(bvCmp("bvult", ta, tb), mkAnd(bvCmp("=", ta, tb), acc))
	}
	return symVal(acc, types.Bool)
}

func symStrBinop(op token.Token, x, y value) value {
	switch op {
	case token.ADD:
		return mkStr(append(append([]value(nil), strBytes(x)...), strBytes(y)...))
	case token.EQL:
		return strEq(x, y)
	case token.NEQ:
		return notv(strEq(x, y))
	case token.LSS:
		return strLess(x, y)
	case token.GTR:
		return strLess(y, x)
	case token.LEQ:
		return notv(strLess(y, x))
	case token.GEQ:
		return notv(strLess(x, y))
	}
	panic(engineErr{"symStrBinop " + op.String()})
}

func notv(v value) value {
	switch b := v.(type) {
	case bool:
		return !b
	case *Sym:
		return symVal(mkNot(b.T), types.Bool)
	}
	panic(engineErr{"notv"})
}

func andv(x, y value) value {
	a, _ := termOf(x)
	b, _ := termOf(y)
	return symVal(mkAnd(a, b), types.Bool)
}

// eqv is Go's == on arbitrary comparable values, returning bool or *Sym.
func eqv(t types.Type, x, y value) value {
	switch a := x.(type) {
	case *Sym:
		return symBinop(token.EQL, t, x, y)
	case symstr, fmtstr:
		return strEq(x, y)
	case string:
		if isStrVal(y) {
			return strEq(x, y)
		}
		return false
	case structure:
		b, ok := y.(structure)
		if !ok || len(a) != len(b) {
			return false
		}
		var st *types.Struct
		if t != nil {
			st, _ = t.Underlying().(*types.Struct)
		}
		var acc value = true
		for i := range a {
			var ft types.Type
			if st != nil {
				if st.Field(i).Name() == "_" {
					continue
				}
				ft = st.Field(i).Type()
			}
			acc = andv(acc, eqv(ft, a[i], b[i]))
			if acc == false {
				return false
			}
		}
		return acc
	case array:
		b, ok := y.(array)
		if !ok || len(a) != len(b) {
			return false
		}
		var et types.Type
		if t != nil {
			if at, ok := t.Underlying().(*types.Array); ok {
				et = at.Elem()
			}
		}
		var acc value = true
		for i := range a {
			acc = andv(acc, eqv(et, a[i], b[i]))
			if acc == false {
				return false
			}
		}
		return acc
	case iface:
		b, ok := y.(iface)
		if !ok {
			return false
		}
		if a.t == nil || b.t == nil {
			return a.t == nil && b.t == nil
		}
		if !types.Identical(a.t, b.t) {
			return false
		}
		if ba, ok := a.v.(*boundIntrinsic); ok {
			bb, ok2 := b.v.(*boundIntrinsic)
			if !ok2 {
				return false
			}
			if ba.kind == "rtype" && bb.kind == "rtype" {
				return types.Identical(ba.data.(types.Type), bb.data.(types.Type))
			}
			return ba == bb
		}
		return eqv(a.t, a.v, b.v)
	}
	if isSym(y) {
		return symBinop(token.EQL, t, x, y)
	}
	if t == nil {
		// dynamic comparison without static type
		return equalsDyn(x, y)
	}
	return equals(t, x, y)
}

func equalsDyn(x, y value) bool {
	defer func() {
		if r := recover(); r != nil {
			if _, ok := r.(engineErr); ok {
				panic(r)
			}
			panic(engineErr{fmt.Sprintf("equalsDyn(%T,%T): %v", x, y, r)})
		}
	}()
	return equals(nil, x, y)
}

// ---- decimal strings of symbolic integers (strconv.Format* of a symbolic value) ----

type fmtstr struct {
	v      *Sym
	signed bool
}

func (f fmtstr) concrete() string {
	bits := R.concretize(f.v.T, "fmtstr")
	if f.signed {
		return fmt.Sprint(int64(bits))
	}
	return fmt.Sprint(bits)
}

func (f fmtstr) eq(y value) value {
	switch o := y.(type) {
	case fmtstr:
		if o.signed == f.signed {
			return symVal(bvCmp("=", f.v.T, o.v.T), types.Bool)
		}
	}
	return strEq(f.concrete(), y)
}
