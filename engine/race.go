package main

// Happens-before data-race monitor (FastTrack-style, opt-in with -race).
//
// Every engine thread carries a vector clock. Synchronisation operations of
// the code under test (mutexes, channels, close, WaitGroup, Once, atomics,
// sync.Pool, go statements, timers, context cancellation) transfer clocks as
// the Go memory model prescribes (slightly over-approximated: one clock per
// channel / pool rather than per message / item, which can only hide races,
// never invent one). Every load and store of a heap cell, every map operation
// and the element accesses of copy/append/string conversions performed BY THE
// CODE UNDER TEST are checked against the last conflicting access of another
// thread: two accesses, at least one a write, not ordered by happens-before,
// are a data race even if this particular schedule did not interleave them
// badly. Accesses made by harness code (files zz_verif_*.go: handlers,
// environment models, polling assertions) are not checked; instead they are
// treated as sequentially consistent synchronisation (the real libraries the
// models stand for synchronise internally), which again can only hide races.

import (
	"fmt"
	"go/types"
	"path/filepath"
	"strings"

	"golang.org/x/tools/go/ssa"
)

type vclock []uint32

func (a vclock) get(i int) uint32 {
	if i < len(a) {
		return a[i]
	}
	return 0
}

func (a vclock) copyOf() vclock { return append(vclock(nil), a...) }

func joinVC(a, b vclock) vclock {
	if len(b) > len(a) {
		a = append(a, make(vclock, len(b)-len(a))...)
	}
	for i, x := range b {
		if x > a[i] {
			a[i] = x
		}
	}
	return a
}

type raceAccess struct {
	clk   uint32
	instr ssa.Instruction
	fn    *ssa.Function
	via   *ssa.Function // nearest function of the code under test on the stack
	what  string
}

func (fr *frame) targetFn() *ssa.Function {
	for f := fr; f != nil; f = f.caller {
		if fnOwner(f.fn) == ownTarget {
			return f.fn
		}
	}
	return fr.fn
}

type raceCell struct {
	wT    int
	w     raceAccess
	reads []raceAccess // by thread id
}

type raceState struct {
	vc       []vclock
	cells    map[interface{}]*raceCell
	syncs    map[interface{}]vclock
	harness  vclock
	override vclock // set while a timer callback runs: the clock of the timer's creator
	reported map[string]bool
	checks   int64
}

const (
	ownUnknown = iota
	ownTarget
	ownHarness
)

var fnOwnerCache = map[*ssa.Function]int8{}

// fnOwner classifies a function by its source file / package.
func fnOwner(fn *ssa.Function) int8 {
	if o, ok := fnOwnerCache[fn]; ok {
		return o
	}
	var o int8 = ownUnknown
	root := fn
	for root.Parent() != nil {
		root = root.Parent()
	}
	file := ""
	if fn.Pos().IsValid() {
		file = filepath.Base(I.prog.Fset.Position(fn.Pos()).Filename)
	} else if root.Pos().IsValid() {
		file = filepath.Base(I.prog.Fset.Position(root.Pos()).Filename)
	}
	pkgPath := ""
	if root.Pkg != nil {
		pkgPath = root.Pkg.Pkg.Path()
	} else if obj := root.Object(); obj != nil && obj.Pkg() != nil {
		pkgPath = obj.Pkg().Path()
	}
	switch {
	case strings.HasPrefix(file, "zz_verif"):
		o = ownHarness
	case strings.HasPrefix(pkgPath, "github.com/Workiva/frugal") || strings.HasPrefix(pkgPath, "verifgen/"):
		o = ownTarget
	}
	fnOwnerCache[fn] = o
	return o
}

// owner: the nearest frame (this one included) that belongs to the code under
// test or to the harness decides who performs an access made by library code.
func (fr *frame) owner() int8 {
	if fr == nil {
		return ownHarness
	}
	if fr.raceOwner != 0 {
		return fr.raceOwner
	}
	o := fnOwner(fr.fn)
	if o == ownUnknown {
		o = fr.caller.owner()
	}
	fr.raceOwner = o
	return o
}

func (r *Run) raceOn() bool { return r.race != nil && len(r.threads) > 1 }

func (r *Run) raceInit() {
	r.race = &raceState{cells: map[interface{}]*raceCell{}, syncs: map[interface{}]vclock{}, reported: map[string]bool{}}
	r.race.vc = []vclock{{1}}
}

func (rs *raceState) clockOf(t int) vclock {
	for len(rs.vc) <= t {
		rs.vc = append(rs.vc, nil)
	}
	if rs.vc[t] == nil {
		v := make(vclock, t+1)
		v[t] = 1
		rs.vc[t] = v
	}
	if len(rs.vc[t]) <= t {
		rs.vc[t] = append(rs.vc[t], make(vclock, t+1-len(rs.vc[t]))...)
	}
	return rs.vc[t]
}

func (r *Run) raceCur() int {
	if r.cur == nil {
		return 0
	}
	return r.cur.id
}

// raceSpawn: go statement (or timer callback) creates thread child.
func (r *Run) raceSpawn(child int) {
	if r.race == nil {
		return
	}
	rs := r.race
	var parent vclock
	if rs.override != nil {
		parent = rs.override
	} else {
		p := r.raceCur()
		parent = rs.clockOf(p)
		defer func() { rs.clockOf(p)[p]++ }()
	}
	c := joinVC(make(vclock, child+1), parent)
	c[child] = 1
	for len(rs.vc) <= child {
		rs.vc = append(rs.vc, nil)
	}
	rs.vc[child] = c
}

// raceRelease publishes the current thread's clock on a synchronisation object.
func (r *Run) raceRelease(obj interface{}) {
	if r.race == nil {
		return
	}
	rs := r.race
	if rs.override != nil {
		rs.syncs[obj] = joinVC(rs.syncs[obj], rs.override)
		return
	}
	t := r.raceCur()
	v := rs.clockOf(t)
	rs.syncs[obj] = joinVC(rs.syncs[obj], v)
	v[t]++
}

// raceAcquire makes everything published on obj happen before what follows.
func (r *Run) raceAcquire(obj interface{}) {
	if r.race == nil || r.race.override != nil {
		return
	}
	rs := r.race
	if s := rs.syncs[obj]; s != nil {
		t := r.raceCur()
		rs.vc[t] = joinVC(rs.clockOf(t), s)
	}
}

func (r *Run) raceSync(obj interface{}) { r.raceAcquire(obj); r.raceRelease(obj) }

type raceHarnessKey struct{}

// isLocalAddr: the address denotes (part of) a local variable that does not escape.
func isLocalAddr(v ssa.Value) bool {
	for {
		switch x := v.(type) {
		case *ssa.Alloc:
			return !x.Heap
		case *ssa.FieldAddr:
			v = x.X
		case *ssa.IndexAddr:
			// an array is addressed in place (through a pointer to it); a slice's backing store is elsewhere
			if _, ok := x.X.Type().Underlying().(*types.Pointer); !ok {
				return false
			}
			v = x.X
		default:
			return false
		}
	}
}

func (r *Run) raceAccess(key interface{}, write bool, fr *frame, instr ssa.Instruction, what string) {
	rs := r.race
	if r.initPkg != nil {
		return // package initialisation happens before main and before every goroutine
	}
	own := fr.owner()
	if own != ownTarget {
		// harness code: sequentially consistent synchronisation, not checked
		if write {
			r.raceRelease(raceHarnessKey{})
		} else {
			r.raceAcquire(raceHarnessKey{})
		}
		return
	}
	rs.checks++
	t := r.raceCur()
	vc := rs.clockOf(t)
	c := rs.cells[key]
	if c == nil {
		c = &raceCell{wT: -1}
		rs.cells[key] = c
	}
	me := raceAccess{clk: vc[t], instr: instr, fn: fr.fn, via: fr.targetFn(), what: what}
	if c.wT >= 0 && c.wT != t && c.w.clk > vc.get(c.wT) {
		r.raceReport(c.w, c.wT, true, me, t, write)
	}
	if write {
		for u := range c.reads {
			if u != t && c.reads[u].clk > vc.get(u) {
				r.raceReport(c.reads[u], u, false, me, t, true)
			}
		}
		c.wT, c.w = t, me
		c.reads = c.reads[:0]
		return
	}
	for len(c.reads) <= t {
		c.reads = append(c.reads, raceAccess{})
	}
	c.reads[t] = me
}

func raceSite(a raceAccess) string {
	pos := ""
	if a.instr != nil && !isNilInstr(a.instr) && a.instr.Pos().IsValid() {
		p := I.prog.Fset.Position(a.instr.Pos())
		pos = fmt.Sprintf(" (%s:%d)", filepath.Base(p.Filename), p.Line)
	}
	s := shortName(a.fn.String()) + pos
	if a.via != nil && a.via != a.fn {
		s += " called from " + shortName(a.via.String())
	}
	return s
}

func (r *Run) raceReport(a raceAccess, ta int, wa bool, b raceAccess, tb int, wb bool) {
	kind := func(w bool) string {
		if w {
			return "write"
		}
		return "read"
	}
	s1, s2 := kind(wa)+" in "+raceSite(a), kind(wb)+" in "+raceSite(b)
	if s2 < s1 {
		s1, s2 = s2, s1
	}
	key := s1 + " | " + s2
	if r.race.reported[key] {
		return
	}
	r.race.reported[key] = true
	what := b.what
	if what == "" {
		what = "memory"
	}
	r.violation("race", "data race on "+what+": "+s1+" is not ordered with "+s2, shortName(b.via.String()),
		fmt.Sprintf("threads T%d(%s) and T%d(%s)", ta, shortName(r.threads[ta].name), tb, shortName(r.threads[tb].name)), nil)
	panic(runAbort{"race"})
}

// ---- hooks used by the interpreter ----

func (r *Run) raceLoad(addr *value, fr *frame, instr *ssa.UnOp) {
	if addr == nil || isLocalAddr(instr.X) {
		return
	}
	if _, isGlobal := instr.X.(*ssa.Global); isGlobal && fr.owner() != ownTarget {
		return
	}
	r.raceAccess(addr, false, fr, instr, "")
}

func (r *Run) raceStore(addr *value, fr *frame, instr *ssa.Store) {
	if addr == nil || isLocalAddr(instr.Addr) {
		return
	}
	r.raceAccess(addr, true, fr, instr, "")
}

func (r *Run) raceMap(m *smap, write bool, fr *frame, instr ssa.Instruction) {
	if m == nil {
		return
	}
	r.raceAccess(m, write, fr, instr, "a map")
}

// raceSlice: element accesses of a builtin (copy, append, conversions).
func (r *Run) raceSlice(s []value, write bool, fr *frame, instr ssa.Instruction) {
	for i := range s {
		r.raceAccess(&s[i], write, fr, instr, "a slice element")
	}
}

func isNilInstr(i ssa.Instruction) bool {
	switch x := i.(type) {
	case *ssa.UnOp:
		return x == nil
	case *ssa.Store:
		return x == nil
	}
	return i == nil
}
