package main

// SMT term DAG over bit-vectors and booleans, with constant folding and an
// SMT-LIB2 printer that emits every shared node once (define-fun).

import (
	"fmt"
	"strings"
)

type Term struct {
	op   string // "const", "var", or an SMT-LIB operator / pseudo-op
	w    int    // bit width; 0 = Bool
	val  uint64 // const value (Bool: 0/1)
	name string // var name
	args []*Term
	p1   int // extract hi / extend amount
	p2   int // extract lo
	id   int
	h    uint64 // structural hash: equal terms get equal solver names in every run
}

var termSeq int

func mask(w int) uint64 {
	if w >= 64 {
		return ^uint64(0)
	}
	return (uint64(1) << uint(w)) - 1
}

func mkConst(w int, v uint64) *Term {
	return &Term{op: "const", w: w, val: v & mask(w)}
}

var tTrue = &Term{op: "const", w: 0, val: 1}
var tFalse = &Term{op: "const", w: 0, val: 0}

func mkBool(b bool) *Term {
	if b {
		return tTrue
	}
	return tFalse
}

func mkVar(name string, w int) *Term {
	termSeq++
	return &Term{op: "var", w: w, name: name, id: termSeq, h: hashStr(name)}
}

func hashStr(s string) uint64 {
	h := uint64(14695981039346656037)
	for i := 0; i < len(s); i++ {
		h ^= uint64(s[i])
		h *= 1099511628211
	}
	return h
}

func mix(h, x uint64) uint64 {
	h ^= x + 0x9e3779b97f4a7c15 + (h << 6) + (h >> 2)
	h *= 0xff51afd7ed558ccd
	h ^= h >> 33
	return h
}

func (t *Term) hash() uint64 {
	if t.op == "const" {
		return mix(mix(0x51, uint64(t.w)), t.val)
	}
	return t.h
}

func (t *Term) isConst() bool { return t.op == "const" }

func sext(v uint64, w int) int64 {
	if w >= 64 {
		return int64(v)
	}
	if v&(1<<uint(w-1)) != 0 {
		return int64(v | ^mask(w))
	}
	return int64(v)
}

func mk(op string, w int, args ...*Term) *Term {
	termSeq++
	h := mix(hashStr(op), uint64(w))
	for _, a := range args {
		h = mix(h, a.hash())
	}
	return &Term{op: op, w: w, args: args, id: termSeq, h: h}
}

// bvBin builds a binary bit-vector operation with folding.
func bvBin(op string, a, b *Term) *Term {
	w := a.w
	if a.w != b.w {
		panic(engineErr{fmt.Sprintf("bvBin %s width mismatch %d vs %d", op, a.w, b.w)})
	}
	if a.isConst() && b.isConst() {
		x, y := a.val, b.val
		var r uint64
		switch op {
		case "bvadd":
			r = x + y
		case "bvsub":
			r = x - y
		case "bvmul":
			r = x * y
		case "bvand":
			r = x & y
		case "bvor":
			r = x | y
		case "bvxor":
			r = x ^ y
		case "bvudiv":
			if y == 0 {
				r = mask(w)
			} else {
				r = x / y
			}
		case "bvurem":
			if y == 0 {
				r = x
			} else {
				r = x % y
			}
		case "bvsdiv":
			sx, sy := sext(x, w), sext(y, w)
			if sy == 0 {
				if sx < 0 {
					r = 1
				} else {
					r = mask(w)
				}
			} else if sy == -1 {
				r = uint64(-sx)
			} else {
				r = uint64(sx / sy)
			}
		case "bvsrem":
			sx, sy := sext(x, w), sext(y, w)
			if sy == 0 {
				r = x
			} else if sy == -1 {
				r = 0
			} else {
				r = uint64(sx % sy)
			}
		case "bvshl":
			if y >= uint64(w) {
				r = 0
			} else {
				r = x << y
			}
		case "bvlshr":
			if y >= uint64(w) {
				r = 0
			} else {
				r = x >> y
			}
		case "bvashr":
			sx := sext(x, w)
			if y >= uint64(w) {
				if sx < 0 {
					r = mask(w)
				} else {
					r = 0
				}
			} else {
				r = uint64(sx >> y)
			}
		default:
			panic(engineErr{"bvBin fold: " + op})
		}
		return mkConst(w, r)
	}
	// light algebraic simplification
	switch op {
	case "bvadd", "bvor", "bvxor":
		if a.isConst() && a.val == 0 {
			return b
		}
		if b.isConst() && b.val == 0 {
			return a
		}
	case "bvsub", "bvshl", "bvlshr", "bvashr":
		if b.isConst() && b.val == 0 {
			return a
		}
	case "bvand":
		if a.isConst() && a.val == 0 || b.isConst() && b.val == 0 {
			return mkConst(w, 0)
		}
		if a.isConst() && a.val == mask(w) {
			return b
		}
		if b.isConst() && b.val == mask(w) {
			return a
		}
	case "bvmul":
		if a.isConst() && a.val == 1 {
			return b
		}
		if b.isConst() && b.val == 1 {
			return a
		}
		if a.isConst() && a.val == 0 || b.isConst() && b.val == 0 {
			return mkConst(w, 0)
		}
	}
	return mk(op, w, a, b)
}

// bvCmp builds a comparison (result Bool). op in =, bvult, bvule, bvslt, bvsle.
func bvCmp(op string, a, b *Term) *Term {
	if a.w != b.w {
		panic(engineErr{fmt.Sprintf("bvCmp %s width mismatch %d vs %d", op, a.w, b.w)})
	}
	if a.isConst() && b.isConst() {
		var r bool
		switch op {
		case "=":
			r = a.val == b.val
		case "bvult":
			r = a.val < b.val
		case "bvule":
			r = a.val <= b.val
		case "bvslt":
			r = sext(a.val, a.w) < sext(b.val, b.w)
		case "bvsle":
			r = sext(a.val, a.w) <= sext(b.val, b.w)
		default:
			panic(engineErr{"bvCmp fold: " + op})
		}
		return mkBool(r)
	}
	if a == b {
		switch op {
		case "=", "bvule", "bvsle":
			return tTrue
		default:
			return tFalse
		}
	}
	return mk(op, 0, a, b)
}

func mkNot(a *Term) *Term {
	if a.isConst() {
		return mkBool(a.val == 0)
	}
	if a.op == "not" {
		return a.args[0]
	}
	return mk("not", 0, a)
}

func mkAnd(a, b *Term) *Term {
	if a.isConst() {
		if a.val == 0 {
			return tFalse
		}
		return b
	}
	if b.isConst() {
		if b.val == 0 {
			return tFalse
		}
		return a
	}
	return mk("and", 0, a, b)
}

func mkOr(a, b *Term) *Term {
	if a.isConst() {
		if a.val == 1 {
			return tTrue
		}
		return b
	}
	if b.isConst() {
		if b.val == 1 {
			return tTrue
		}
		return a
	}
	return mk("or", 0, a, b)
}

func mkBoolEq(a, b *Term) *Term {
	if a.isConst() {
		if a.val == 1 {
			return b
		}
		return mkNot(b)
	}
	if b.isConst() {
		if b.val == 1 {
			return a
		}
		return mkNot(a)
	}
	return mk("=", 0, a, b)
}

func mkIte(c, a, b *Term) *Term {
	if c.isConst() {
		if c.val == 1 {
			return a
		}
		return b
	}
	if a == b {
		return a
	}
	if a.isConst() && b.isConst() && a.w == b.w && a.val == b.val {
		return a
	}
	return mk("ite", a.w, c, a, b)
}

func mkExtract(hi, lo int, a *Term) *Term {
	if lo == 0 && hi == a.w-1 {
		return a
	}
	w := hi - lo + 1
	if a.isConst() {
		return mkConst(w, a.val>>uint(lo))
	}
	// extract of zero/sign extension back to (a prefix of) the original
	if (a.op == "zext" || a.op == "sext") && lo == 0 && hi < a.args[0].w {
		return mkExtract(hi, 0, a.args[0])
	}
	if a.op == "concat" {
		// args[0] is high part, args[1] low part
		lw := a.args[1].w
		if hi < lw {
			return mkExtract(hi, lo, a.args[1])
		}
		if lo >= lw {
			return mkExtract(hi-lw, lo-lw, a.args[0])
		}
	}
	t := mk("extract", w, a)
	t.p1, t.p2 = hi, lo
	t.h = mix(mix(t.h, uint64(hi)), uint64(lo))
	return t
}

func mkZext(a *Term, w int) *Term {
	if a.w == w {
		return a
	}
	if a.w > w {
		return mkExtract(w-1, 0, a)
	}
	if a.isConst() {
		return mkConst(w, a.val)
	}
	t := mk("zext", w, a)
	t.p1 = w - a.w
	t.h = mix(t.h, uint64(t.p1))
	return t
}

func mkSext(a *Term, w int) *Term {
	if a.w == w {
		return a
	}
	if a.w > w {
		return mkExtract(w-1, 0, a)
	}
	if a.isConst() {
		return mkConst(w, uint64(sext(a.val, a.w)))
	}
	t := mk("sext", w, a)
	t.p1 = w - a.w
	t.h = mix(t.h, uint64(t.p1))
	return t
}

func mkConcat(hi, lo *Term) *Term {
	if hi.isConst() && lo.isConst() && hi.w+lo.w <= 64 {
		return mkConst(hi.w+lo.w, hi.val<<uint(lo.w)|lo.val)
	}
	return mk("concat", hi.w+lo.w, hi, lo)
}

func mkNeg(a *Term) *Term {
	if a.isConst() {
		return mkConst(a.w, -a.val)
	}
	return mk("bvneg", a.w, a)
}

func mkBvNot(a *Term) *Term {
	if a.isConst() {
		return mkConst(a.w, ^a.val)
	}
	return mk("bvnot", a.w, a)
}

// ---- printing ----

func sortOf(w int) string {
	if w == 0 {
		return "Bool"
	}
	return fmt.Sprintf("(_ BitVec %d)", w)
}

func constStr(t *Term) string {
	if t.w == 0 {
		if t.val == 1 {
			return "true"
		}
		return "false"
	}
	if t.w%4 == 0 {
		return fmt.Sprintf("#x%0*x", t.w/4, t.val)
	}
	return fmt.Sprintf("#b%0*b", t.w, t.val)
}

// ref returns the textual reference for t assuming it has been defined in
// epoch ep (see emitDefs).
func (t *Term) ref() string {
	switch t.op {
	case "const":
		return constStr(t)
	case "var":
		return t.name
	}
	return fmt.Sprintf("t%016x", t.h)
}

func (t *Term) body() string {
	var sb strings.Builder
	switch t.op {
	case "extract":
		fmt.Fprintf(&sb, "((_ extract %d %d) %s)", t.p1, t.p2, t.args[0].ref())
	case "zext":
		fmt.Fprintf(&sb, "((_ zero_extend %d) %s)", t.p1, t.args[0].ref())
	case "sext":
		fmt.Fprintf(&sb, "((_ sign_extend %d) %s)", t.p1, t.args[0].ref())
	default:
		sb.WriteString("(" + t.op)
		for _, a := range t.args {
			sb.WriteString(" " + a.ref())
		}
		sb.WriteString(")")
	}
	return sb.String()
}

// defTable records what the solver currently knows: name -> (scope level, body).
type defTable struct {
	level map[string]int
	body  map[string]string
}

func newDefTable() *defTable {
	return &defTable{level: map[string]int{}, body: map[string]string{}}
}

func (d *defTable) popTo(level int) {
	for n, l := range d.level {
		if l > level {
			delete(d.level, n)
			delete(d.body, n)
		}
	}
}

// emitDefs writes the declarations/definitions needed for t (post-order) that
// the solver does not have yet, recording them at the given scope level.
func emitDefs(t *Term, d *defTable, level int, out *strings.Builder) {
	if t.op == "const" {
		return
	}
	type item struct {
		t    *Term
		next int
	}
	seen := map[*Term]bool{}
	known := func(n *Term) bool {
		if n.op == "const" || seen[n] {
			return true
		}
		_, ok := d.level[n.ref()]
		return ok
	}
	if known(t) {
		checkBody(t, d)
		return
	}
	stack := []item{{t, 0}}
	for len(stack) > 0 {
		top := &stack[len(stack)-1]
		n := top.t
		if seen[n] {
			stack = stack[:len(stack)-1]
			continue
		}
		if top.next < len(n.args) {
			a := n.args[top.next]
			top.next++
			if !known(a) {
				stack = append(stack, item{a, 0})
			}
			continue
		}
		name := n.ref()
		if _, ok := d.level[name]; !ok {
			var body string
			if n.op == "var" {
				body = "var " + sortOf(n.w)
				fmt.Fprintf(out, "(declare-const %s %s)\n", n.name, sortOf(n.w))
			} else {
				body = n.body()
				fmt.Fprintf(out, "(define-fun %s () %s %s)\n", name, sortOf(n.w), body)
			}
			d.level[name] = level
			d.body[name] = body
		} else {
			checkBody(n, d)
		}
		seen[n] = true
		stack = stack[:len(stack)-1]
	}
}

// checkBody guards against hash collisions: a name must always denote one body.
func checkBody(n *Term, d *defTable) {
	if n.op == "const" {
		return
	}
	var body string
	if n.op == "var" {
		body = "var " + sortOf(n.w)
	} else {
		body = n.body()
	}
	if b, ok := d.body[n.ref()]; ok && b != body {
		panic(engineErr{"term hash collision: " + n.ref() + " = " + b + " vs " + body})
	}
}

// String renders a term as a (possibly large) tree, for diagnostics only.
func (t *Term) String() string {
	return t.str(0)
}

func (t *Term) str(d int) string {
	switch t.op {
	case "const":
		if t.w == 0 {
			return constStr(t)
		}
		return fmt.Sprintf("%d:%d", t.val, t.w)
	case "var":
		return t.name
	}
	if d > 6 {
		return "…"
	}
	var parts []string
	for _, a := range t.args {
		parts = append(parts, a.str(d+1))
	}
	extra := ""
	if t.op == "extract" {
		extra = fmt.Sprintf("[%d:%d]", t.p1, t.p2)
	}
	return "(" + t.op + extra + " " + strings.Join(parts, " ") + ")"
}

// eval evaluates a term under an assignment of variables (used for pinned runs
// and for cross-checking models).
func (t *Term) eval(env map[string]uint64, memo map[*Term]uint64) uint64 {
	if t.op == "const" {
		return t.val
	}
	if v, ok := memo[t]; ok {
		return v
	}
	var r uint64
	switch t.op {
	case "var":
		r = env[t.name] & mask(t.w)
		if t.w == 0 {
			r = env[t.name] & 1
		}
	default:
		cs := make([]*Term, len(t.args))
		for i, a := range t.args {
			cs[i] = &Term{op: "const", w: a.w, val: a.eval(env, memo)}
		}
		var f *Term
		switch t.op {
		case "not":
			f = mkNot(cs[0])
		case "and":
			f = mkAnd(cs[0], cs[1])
		case "or":
			f = mkOr(cs[0], cs[1])
		case "ite":
			f = mkIte(cs[0], cs[1], cs[2])
		case "=":
			if cs[0].w == 0 {
				f = mkBool(cs[0].val == cs[1].val)
			} else {
				f = bvCmp("=", cs[0], cs[1])
			}
		case "bvult", "bvule", "bvslt", "bvsle":
			f = bvCmp(t.op, cs[0], cs[1])
		case "extract":
			f = mkExtract(t.p1, t.p2, cs[0])
		case "zext":
			f = mkZext(cs[0], t.w)
		case "sext":
			f = mkSext(cs[0], t.w)
		case "concat":
			f = mkConcat(cs[0], cs[1])
		case "bvneg":
			f = mkNeg(cs[0])
		case "bvnot":
			f = mkBvNot(cs[0])
		default:
			f = bvBin(t.op, cs[0], cs[1])
		}
		r = f.val
	}
	memo[t] = r
	return r
}
