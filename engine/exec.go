package main

// SSA interpreter core. Structure follows golang.org/x/tools/go/ssa/interp
// (BSD licence, see LICENSE.xtools) with symbolic scalars, engine-level
// decisions, explicit run-time checks and an own thread scheduler.

import (
	"fmt"
	"go/token"
	"go/types"
	"runtime"
	"slices"
	"strings"

	"golang.org/x/tools/go/ssa"
)

type continuation int

const (
	kNext continuation = iota
	kReturn
	kJump
)

type interpreter struct {
	prog               *ssa.Program
	runtimeErrorString types.Type
	sizes              types.Sizes
	harnessPkg         *ssa.Package
}

var I *interpreter

type deferred struct {
	fn    value
	args  []value
	instr *ssa.Defer
	tail  *deferred
}

type frame struct {
	caller           *frame
	fn               *ssa.Function
	block, prevBlock *ssa.BasicBlock
	env              map[ssa.Value]value
	locals           []value
	defers           *deferred
	result           value
	panicking        bool
	panic            interface{}
	phitemps         []value
	predOcc          int // which occurrence of prevBlock among block.Preds the taken edge is
	depth            int
	lenient          bool // package initialiser: unsupported callees yield zero values
	raceOwner        int8 // race monitor: who performs accesses made in this frame (cached)
}

func mustDeref(t types.Type) types.Type {
	if p, ok := t.Underlying().(*types.Pointer); ok {
		return p.Elem()
	}
	panic(engineErr{fmt.Sprintf("mustDeref of %s", t)})
}

func targetRuntimeError(msg string) targetPanic {
	R.lastPanicMsg = "runtime error: " + msg
	return targetPanic{iface{I.runtimeErrorString, msg}}
}

func nilDeref() targetPanic {
	return targetRuntimeError("invalid memory address or nil pointer dereference")
}

func (fr *frame) get(key ssa.Value) value {
	switch key := key.(type) {
	case nil:
		return nil
	case *ssa.Function, *ssa.Builtin:
		return key
	case *ssa.Const:
		return constValue(key)
	case *ssa.Global:
		return R.global(key)
	}
	if r, ok := fr.env[key]; ok {
		return r
	}
	panic(engineErr{fmt.Sprintf("get: no value for %T: %v in %s", key, key.Name(), fr.fn)})
}

// ---- globals: initialised lazily, per run, per package ----

func (r *Run) global(g *ssa.Global) *value {
	if c, ok := r.globals[g]; ok {
		return c
	}
	r.initPackage(g.Pkg)
	if c, ok := r.globals[g]; ok {
		return c
	}
	panic(engineErr{"global without storage: " + g.String()})
}

// Packages outside the repository under test keep their initialised globals
// for the life of the process (their state is read-only after init: tables,
// sentinel errors); only Workiva/frugal packages are re-initialised per run.
var sharedGlobals = map[*ssa.Global]*value{}
var sharedInit = map[*ssa.Package]bool{}

func shareable(pkg *ssa.Package) bool {
	return !strings.HasPrefix(pkg.Pkg.Path(), "github.com/Workiva/frugal")
}

func (r *Run) initPackage(pkg *ssa.Package) {
	if r.pkgInit[pkg] {
		return
	}
	r.pkgInit[pkg] = true
	if shareable(pkg) {
		if sharedInit[pkg] {
			for _, m := range pkg.Members {
				if g, ok := m.(*ssa.Global); ok {
					r.globals[g] = sharedGlobals[g]
				}
			}
			return
		}
		defer func() {
			if recover() != nil {
				panic(engineErr{"panic while initialising package " + pkg.Pkg.Path()})
			}
			// only a completed initialisation is shared
			sharedInit[pkg] = true
			for _, m := range pkg.Members {
				if g, ok := m.(*ssa.Global); ok {
					sharedGlobals[g] = r.globals[g]
				}
			}
		}()
	}
	for _, m := range pkg.Members {
		if g, ok := m.(*ssa.Global); ok {
			cell := zero(mustDeref(g.Type()))
			r.globals[g] = &cell
		}
	}
	if initFn := pkg.Func("init"); initFn != nil && initFn.Blocks != nil {
		if skipInit[pkg.Pkg.Path()] {
			return
		}
		saved := r.initPkg
		r.initPkg = pkg
		callSSAMode(nil, initFn, nil, nil, true)
		r.initPkg = saved
	}
}

// packages whose initialisers are never run (their globals stay zero); code
// from them is reached only through stubs.
var skipInit = map[string]bool{
	"runtime": true, "os": true, "syscall": true, "net": true, "net/http": true, "crypto/tls": true,
	"reflect": true, "internal/poll": true, "time": true, "sync": true, "internal/godebug": true,
	"github.com/sirupsen/logrus": true, "github.com/nats-io/nats.go": true, "log": true,
	"crypto/rand": true, "math/rand": true, "github.com/nats-io/nuid": true, "internal/cpu": true,
	"golang.org/x/sys/unix": true, "os/signal": true, "context": false,
}

func (fr *frame) runDefer(d *deferred) {
	var ok bool
	defer func() {
		if !ok {
			p := recover()
			if isControl(p) {
				panic(p)
			}
			fr.panicking = true
			fr.panic = p
		}
	}()
	call(fr, d.instr.Pos(), d.fn, d.args)
	ok = true
}

// isControl reports host panics that are engine control flow, never visible
// to the interpreted program.
func isControl(p interface{}) bool {
	switch p.(type) {
	case engineErr, runAbort, threadKill:
		return true
	case runtime.Error:
		return true
	case string:
		return true
	}
	return false
}

func (fr *frame) runDefers() {
	for d := fr.defers; d != nil; d = d.tail {
		fr.runDefer(d)
	}
	fr.defers = nil
	if fr.panicking {
		panic(fr.panic)
	}
}

func lookupMethod(typ types.Type, meth *types.Func) *ssa.Function {
	return I.prog.LookupMethod(typ, meth.Pkg(), meth.Name())
}

func visitInstr(fr *frame, instr ssa.Instruction) continuation {
	switch instr := instr.(type) {
	case *ssa.DebugRef:
	case *ssa.UnOp:
		if R.watched != nil && instr.Op == token.MUL {
			if p, ok := fr.get(instr.X).(*value); ok {
				R.checkWatched(p, "read", fr)
			}
		}
		if instr.Op == token.MUL && R.raceOn() {
			if p, ok := fr.get(instr.X).(*value); ok {
				R.raceLoad(p, fr, instr)
			}
		}
		fr.env[instr] = unop(instr, fr.get(instr.X))
	case *ssa.BinOp:
		fr.env[instr] = binop(instr.Op, instr.X.Type(), fr.get(instr.X), fr.get(instr.Y))
	case *ssa.Call:
		fn, args := prepareCall(fr, &instr.Call)
		fr.env[instr] = call(fr, instr.Pos(), fn, args)
	case *ssa.ChangeInterface:
		fr.env[instr] = fr.get(instr.X)
	case *ssa.ChangeType:
		fr.env[instr] = fr.get(instr.X)
	case *ssa.Convert:
		fr.env[instr] = conv(instr.Type(), instr.X.Type(), fr.get(instr.X))
	case *ssa.MultiConvert:
		fr.env[instr] = conv(instr.Type(), instr.X.Type(), fr.get(instr.X))
	case *ssa.SliceToArrayPointer:
		fr.env[instr] = sliceToArrayPointer(instr.Type(), instr.X.Type(), fr.get(instr.X))
	case *ssa.MakeInterface:
		fr.env[instr] = iface{t: instr.X.Type(), v: fr.get(instr.X)}
	case *ssa.Extract:
		fr.env[instr] = fr.get(instr.Tuple).(tuple)[instr.Index]
	case *ssa.Slice:
		res := slice(fr.get(instr.X), fr.get(instr.Low), fr.get(instr.High), fr.get(instr.Max))
		if sl, ok := res.([]value); ok {
			// re-slicing beyond the old length exposes spare capacity that the host's append left
			// untyped: Go guarantees zero values there
			if st, ok := instr.Type().Underlying().(*types.Slice); ok {
				for i := len(sl) - 1; i >= 0 && sl[i] == nil; i-- {
					sl[i] = zero(st.Elem())
				}
			}
		}
		fr.env[instr] = res
	case *ssa.Return:
		switch len(instr.Results) {
		case 0:
		case 1:
			fr.result = fr.get(instr.Results[0])
		default:
			var res []value
			for _, r := range instr.Results {
				res = append(res, fr.get(r))
			}
			fr.result = tuple(res)
		}
		fr.block = nil
		return kReturn
	case *ssa.RunDefers:
		fr.runDefers()
	case *ssa.Panic:
		R.lastPanicSite = fr.fn.String()
		R.lastPanicMsg = "panic: " + toString(fr.get(instr.X))
		panic(targetPanic{fr.get(instr.X)})
	case *ssa.Send:
		chanSend(fr.get(instr.Chan), fr.get(instr.X))
	case *ssa.Store:
		addr := fr.get(instr.Addr).(*value)
		if addr == nil {
			panic(nilDeref())
		}
		if R.watched != nil {
			R.checkWatched(addr, "write", fr)
		}
		if R.raceOn() {
			R.raceStore(addr, fr, instr)
		}
		store(mustDeref(instr.Addr.Type()), addr, fr.get(instr.Val))
	case *ssa.If:
		succ := 1
		if truth(fr.get(instr.Cond), fr.fn.String()) {
			succ = 0
		}
		// an If may have the same block as both successors (with different phi edges)
		fr.predOcc = 0
		if succ == 1 && fr.block.Succs[0] == fr.block.Succs[1] {
			fr.predOcc = 1
		}
		fr.prevBlock, fr.block = fr.block, fr.block.Succs[succ]
		return kJump
	case *ssa.Jump:
		fr.predOcc = 0
		fr.prevBlock, fr.block = fr.block, fr.block.Succs[0]
		return kJump
	case *ssa.Defer:
		fn, args := prepareCall(fr, &instr.Call)
		defers := &fr.defers
		if instr.DeferStack != nil {
			if into := fr.get(instr.DeferStack); into != nil {
				defers = into.(**deferred)
			}
		}
		*defers = &deferred{fn: fn, args: args, instr: instr, tail: *defers}
	case *ssa.Go:
		fn, args := prepareCall(fr, &instr.Call)
		spawnThread(fn, args, fr.fn.String())
	case *ssa.MakeChan:
		fr.env[instr] = newChan(int(concInt(fr.get(instr.Size), "makechan")))
	case *ssa.Alloc:
		var addr *value
		if instr.Heap {
			addr = new(value)
			fr.env[instr] = addr
		} else {
			addr = fr.env[instr].(*value)
		}
		*addr = zero(mustDeref(instr.Type()))
	case *ssa.MakeSlice:
		n, c := allocSize(fr.get(instr.Len), fr.get(instr.Cap))
		sl := make([]value, c)
		tElt := instr.Type().Underlying().(*types.Slice).Elem()
		for i := range sl {
			sl[i] = zero(tElt)
		}
		fr.env[instr] = sl[:n]
	case *ssa.MakeMap:
		fr.env[instr] = newMap(instr.Type().Underlying().(*types.Map))
	case *ssa.Range:
		if R.raceOn() {
			if m, ok := fr.get(instr.X).(*smap); ok {
				R.raceMap(m, false, fr, instr)
			}
		}
		fr.env[instr] = rangeIter(fr.get(instr.X), instr.X.Type())
	case *ssa.Next:
		fr.env[instr] = fr.get(instr.Iter).(iter).next()
	case *ssa.FieldAddr:
		p := fr.get(instr.X).(*value)
		if p == nil {
			panic(nilDeref())
		}
		fr.env[instr] = &(*p).(structure)[instr.Field]
	case *ssa.Field:
		fr.env[instr] = copyVal(fr.get(instr.X).(structure)[instr.Field])
	case *ssa.IndexAddr:
		x := fr.get(instr.X)
		idx := fr.get(instr.Index)
		switch x := x.(type) {
		case []value:
			fr.env[instr] = &x[checkIndex(idx, len(x), "slice")]
		case *value:
			if x == nil {
				panic(nilDeref())
			}
			a := (*x).(array)
			fr.env[instr] = &a[checkIndex(idx, len(a), "array")]
		default:
			panic(engineErr{fmt.Sprintf("unexpected x type in IndexAddr: %T", x)})
		}
	case *ssa.Index:
		x := fr.get(instr.X)
		idx := fr.get(instr.Index)
		switch x := x.(type) {
		case array:
			fr.env[instr] = copyVal(x[checkIndex(idx, len(x), "array")])
		case string:
			fr.env[instr] = x[checkIndex(idx, len(x), "string")]
		case symstr:
			fr.env[instr] = x[checkIndex(idx, len(x), "string")]
		case fmtstr:
			s := x.concrete()
			fr.env[instr] = s[checkIndex(idx, len(s), "string")]
		default:
			panic(engineErr{fmt.Sprintf("unexpected x type in Index: %T", x)})
		}
	case *ssa.Lookup:
		if R.raceOn() {
			if m, ok := fr.get(instr.X).(*smap); ok {
				R.raceMap(m, false, fr, instr)
			}
		}
		fr.env[instr] = lookup(instr, fr.get(instr.X), fr.get(instr.Index))
	case *ssa.MapUpdate:
		m := fr.get(instr.Map).(*smap)
		if m == nil {
			panic(targetPanic{iface{I.runtimeErrorString, "assignment to entry in nil map"}})
		}
		if R.raceOn() {
			R.raceMap(m, true, fr, instr)
		}
		m.insert(copyVal(fr.get(instr.Key)), copyVal(fr.get(instr.Value)))
	case *ssa.TypeAssert:
		fr.env[instr] = typeAssert(instr, fr.get(instr.X).(iface))
	case *ssa.MakeClosure:
		var bindings []value
		for _, binding := range instr.Bindings {
			bindings = append(bindings, fr.get(binding))
		}
		fr.env[instr] = &closure{instr.Fn.(*ssa.Function), bindings}
	case *ssa.Phi:
		panic(engineErr{"phi outside block entry"})
	case *ssa.Select:
		fr.env[instr] = doSelect(fr, instr)
	default:
		panic(engineErr{fmt.Sprintf("unexpected instruction: %T", instr)})
	}
	return kNext
}

func prepareCall(fr *frame, call *ssa.CallCommon) (fn value, args []value) {
	v := fr.get(call.Value)
	if call.Method == nil {
		fn = v
	} else {
		recv := v.(iface)
		if recv.t == nil {
			panic(nilDeref())
		}
		if bm, ok := recv.v.(*boundIntrinsic); ok {
			// engine-native object behind an interface (see stubs.go)
			return &intrinsicMethod{obj: bm, name: call.Method.Name()}, fr.getArgs(call)
		}
		if f := lookupMethod(recv.t, call.Method); f == nil {
			panic(engineErr{fmt.Sprintf("method set for dynamic type %v does not contain %s", recv.t, call.Method)})
		} else {
			fn = f
		}
		args = append(args, recv.v)
	}
	for _, arg := range call.Args {
		args = append(args, fr.get(arg))
	}
	return
}

func (fr *frame) getArgs(call *ssa.CallCommon) []value {
	var args []value
	for _, arg := range call.Args {
		args = append(args, fr.get(arg))
	}
	return args
}

func call(caller *frame, callpos token.Pos, fn value, args []value) value {
	switch fn := fn.(type) {
	case *ssa.Function:
		if fn == nil {
			panic(nilDeref())
		}
		return callSSA(caller, fn, args, nil)
	case *closure:
		return callSSA(caller, fn.Fn, args, fn.Env)
	case *ssa.Builtin:
		return callBuiltin(caller, callpos, fn, args)
	case *intrinsicMethod:
		return fn.obj.call(caller, fn.name, args)
	case *hostFunc:
		return fn.f(caller, args)
	}
	panic(engineErr{fmt.Sprintf("cannot call %T", fn)})
}

func callSSA(caller *frame, fn *ssa.Function, args []value, env []value) value {
	return callSSAMode(caller, fn, args, env, false)
}

func callSSAMode(caller *frame, fn *ssa.Function, args []value, env []value, lenient bool) value {
	fr := &frame{caller: caller, fn: fn, lenient: lenient}
	if caller != nil {
		fr.depth = caller.depth + 1
		if caller.lenient && fn.Name() == "init" && fn.Pkg != nil && fn.Pkg != R.initPkg && fn.Synthetic != "" {
			return nil // nested package initialiser: initialised lazily instead
		}
		if caller.lenient && strings.HasPrefix(fn.Name(), "init#") && fn.Pkg == R.initPkg {
			fr.lenient = true
		}
	}
	if fr.depth > R.cfg.MaxDepth {
		R.lastPanicSite = fn.String()
		R.stackOverflow(fn)
	}
	if fn.Parent() == nil {
		if ext := lookupIntrinsic(fn); ext != nil {
			R.stubs[fn.String()]++
			return ext(fr, args)
		}
		if fn.Blocks == nil {
			if caller != nil && caller.lenient {
				R.stubs["init-skip:"+fn.String()]++
				return zeroResults(fn)
			}
			panic(engineErr{"no code for function: " + fn.String()})
		}
	}
	if fn.TypeParams().Len() > 0 && len(fn.TypeArgs()) == 0 {
		panic(engineErr{"uninstantiated generic " + fn.String()})
	}
	if caller != nil && caller.lenient {
		// a failing callee inside a package initialiser is replaced by a zero result
		defer func() {
			if p := recover(); p != nil {
				if e, ok := p.(engineErr); ok {
					R.stubs["init-skip:"+fn.String()+" ("+e.msg+")"]++
					return
				}
				panic(p)
			}
		}()
	}
	fr.env = make(map[ssa.Value]value, len(fn.Params)+8)
	fr.block = fn.Blocks[0]
	fr.locals = make([]value, len(fn.Locals))
	for i, l := range fn.Locals {
		fr.locals[i] = zero(mustDeref(l.Type()))
		fr.env[l] = &fr.locals[i]
	}
	for i, p := range fn.Params {
		fr.env[p] = args[i]
	}
	for i, fv := range fn.FreeVars {
		fr.env[fv] = env[i]
	}
	for fr.block != nil {
		runFrame(fr)
	}
	return fr.result
}

func zeroResults(fn *ssa.Function) value {
	res := fn.Signature.Results()
	switch res.Len() {
	case 0:
		return nil
	case 1:
		return zero(res.At(0).Type())
	}
	return zero(res)
}

func runFrame(fr *frame) {
	defer func() {
		if fr.block == nil {
			return // normal return
		}
		p := recover()
		if isControl(p) {
			switch q := p.(type) {
			case runtime.Error:
				buf := make([]byte, 4096)
				buf = buf[:runtime.Stack(buf, false)]
				panic(engineErr{fmt.Sprintf("host runtime error in %s: %v\n%s", fr.fn, q, buf)})
			case string:
				panic(engineErr{fmt.Sprintf("in %s: %s", fr.fn, q)})
			}
			panic(p)
		}
		if _, ok := p.(targetPanic); ok && R.lastPanicSite == "" {
			R.lastPanicSite = fr.fn.String()
		}
		fr.panicking = true
		fr.panic = p
		fr.runDefers()
		fr.block = fr.fn.Recover
	}()

	for {
		R.curFrame = fr
		R.steps += int64(len(fr.block.Instrs))
		R.fnSteps[fr.fn] += len(fr.block.Instrs)
		if R.steps > R.cfg.MaxSteps {
			if R.cfg.UnwindViolation {
				R.violation("unwind", "does not terminate within the step bound", fr.fn.String(), fmt.Sprintf("more than %d instructions on one path", R.cfg.MaxSteps), nil)
				panic(runAbort{"step limit"})
			}
			R.event("STEP-LIMIT: more than %d instructions on one path (in %s)", R.cfg.MaxSteps, fr.fn)
			panic(runAbort{"step limit"})
		}
		nonPhis := executePhis(fr)
		for _, instr := range nonPhis {
			if R.cfg.Trace {
				if v, ok := instr.(ssa.Value); ok {
					fmt.Printf("T%d %s\t%s = %s\n", R.cur.id, fr.fn.Name(), v.Name(), instr)
				} else {
					fmt.Printf("T%d %s\t%s\n", R.cur.id, fr.fn.Name(), instr)
				}
			}
			if visitInstr(fr, instr) == kReturn {
				return
			}
		}
	}
}

func executePhis(fr *frame) []ssa.Instruction {
	firstNonPhi := -1
	for i, instr := range fr.block.Instrs {
		if _, ok := instr.(*ssa.Phi); !ok {
			firstNonPhi = i
			break
		}
	}
	nonPhis := fr.block.Instrs[firstNonPhi:]
	if firstNonPhi > 0 {
		phis := fr.block.Instrs[:firstNonPhi]
		predIndex := -1
		occ := fr.predOcc
		for i, p := range fr.block.Preds {
			if p == fr.prevBlock {
				if occ == 0 {
					predIndex = i
					break
				}
				occ--
			}
		}
		if predIndex < 0 {
			predIndex = slices.Index(fr.block.Preds, fr.prevBlock)
		}
		fr.phitemps = fr.phitemps[:0]
		for _, phi := range phis {
			phi := phi.(*ssa.Phi)
			fr.phitemps = append(fr.phitemps, fr.get(phi.Edges[predIndex]))
		}
		for i, phi := range phis {
			fr.env[phi.(*ssa.Phi)] = fr.phitemps[i]
		}
	}
	return nonPhis
}

func doRecover(caller *frame) value {
	if caller != nil && !caller.panicking &&
		caller.caller != nil && caller.caller.panicking {
		p := caller.caller.panic
		switch p := p.(type) {
		case targetPanic:
			caller.caller.panicking = false
			caller.caller.panic = nil
			R.lastRecovered = R.lastPanicSite
			R.lastRecoveredMsg = R.lastPanicMsg
			R.lastPanicSite = ""
			return p.v
		default:
			panic(engineErr{fmt.Sprintf("unexpected panic type %T in target call to recover()", p)})
		}
	}
	return iface{}
}

func (r *Run) stackOverflow(fn *ssa.Function) {
	// Go cannot recover from stack exhaustion: the process dies.
	r.violation("panic", "fatal: stack overflow (unbounded recursion)", fn.String(), fmt.Sprintf("call depth exceeded %d", r.cfg.MaxDepth), nil)
	panic(runAbort{"stack overflow"})
}

// allocSize decides the (len, cap) of a make([]T, len, cap). Symbolic sizes up
// to cfg.SmallAlloc are enumerated; larger ones are represented by a single
// witness per path (recorded as the abstraction "large-alloc"), because code
// that receives such a buffer can only distinguish it by reading input it does
// not have. Go's own panics (negative, len > cap) are explored exactly.
func allocSize(lv, cv value) (int64, int64) {
	if isSym(lv) || isSym(cv) {
		l64, c64 := to64(lv), to64(cv)
		bad := mkOr(bvCmp("bvslt", l64, mkConst(64, 0)), bvCmp("bvslt", c64, l64))
		if R.branch(bad, "makeslice-neg") {
			panic(targetRuntimeError("makeslice: len out of range"))
		}
		small := bvCmp("bvsle", c64, mkConst(64, uint64(R.cfg.SmallAlloc)))
		if !R.branch(small, "makeslice-small") {
			R.markReach("abstraction:large-alloc")
			R.abstractions++
			rep := bvCmp("=", l64, mkConst(64, uint64(R.cfg.SmallAlloc+1)))
			if R.feasible(rep, true) == resSat {
				R.addPC(rep)
			} else if s, ok := lv.(*Sym); ok {
				// the representative size is excluded by the path condition: any one witness
				R.concretizeOpt(s.T, "makeslice-len-witness", true)
			}
			if s, ok := cv.(*Sym); ok {
				R.concretizeOpt(s.T, "makeslice-cap-witness", true)
			}
		}
	}
	n, c := concInt(lv, "makeslice-len"), concInt(cv, "makeslice-cap")
	if n < 0 || c < n {
		panic(targetRuntimeError("makeslice: len out of range"))
	}
	if c > int64(R.cfg.MaxAlloc) {
		// a buffer larger than anything the harness can fill is represented by one of
		// MaxAlloc elements (counted as an abstraction; counterexamples are replayed natively)
		R.markReach("abstraction:huge-alloc-clamped")
		R.abstractions++
		if n > int64(R.cfg.MaxAlloc) {
			n = int64(R.cfg.MaxAlloc)
		}
		c = int64(R.cfg.MaxAlloc)
	}
	return n, c
}

// checkWatched reports a plain (non-atomic) access to a cell registered with
// verifWatch while more than one thread is alive.
func (r *Run) checkWatched(p *value, kind string, fr *frame) {
	name, ok := r.watched[p]
	if !ok {
		return
	}
	live := 0
	for _, t := range r.threads {
		if !t.done {
			live++
		}
	}
	if live > 1 {
		r.violation("race", "non-atomic "+kind+" of "+name+" while other goroutines run", fr.fn.String(), "", nil)
		panic(runAbort{"race"})
	}
}
