package main

// Maps: ordered association lists with an index for concrete keys. Keys may be
// symbolic; lookups then decide key equality entry by entry (a recorded branch
// each). Iteration order is insertion order unless the map was marked with
// verifMapOrder, in which case every permutation is explored.

import (
	"fmt"
	"go/types"
	"strings"
)

type mentry struct {
	k, v    value
	deleted bool
}

type smap struct {
	t       *types.Map
	entries []*mentry
	idx     map[interface{}]*mentry
	nsym    int  // live entries with non-concrete keys
	anyOrd  bool // explore all iteration orders
	havoc   *havocInfo
	absent  []value
	guard   *value // address of the sync.(RW)Mutex that must be held on every access (verifGuard)
	gname   string
}

// checkGuard implements the lock-discipline obligation registered with verifGuard.
func (m *smap) checkGuard(write bool) {
	if m == nil || m.guard == nil || R.initPkg != nil {
		return
	}
	w, rd := R.mutexHeld(m.guard)
	if w || (!write && rd) {
		return
	}
	kind := "read"
	if write {
		kind = "write"
	}
	R.violation("race", "unsynchronised "+kind+" of "+m.gname, R.curFuncName(), "map accessed without holding its mutex", nil)
	panic(runAbort{"lock discipline"})
}

// havocInfo makes the map an arbitrary unknown map: a key that is not found
// among the explicit entries is present or absent by decision, with a value
// produced by mk.
type havocInfo struct {
	mk func(key value) value
}

func newMap(t *types.Map) *smap {
	return &smap{t: t, idx: map[interface{}]*mentry{}}
}

type ifaceKey struct {
	t string
	k interface{}
}

// hostKey returns a comparable host value for a fully concrete key.
func hostKey(v value) (interface{}, bool) {
	switch x := v.(type) {
	case bool, int, int8, int16, int32, int64, uint, uint8, uint16, uint32, uint64, uintptr, float32, float64, string, *value, *chanObj, complex64, complex128:
		return x, true
	case iface:
		if x.t == nil {
			return ifaceKey{}, true
		}
		k, ok := hostKey(x.v)
		if !ok {
			return nil, false
		}
		return ifaceKey{x.t.String(), k}, true
	case structure:
		var sb strings.Builder
		sb.WriteString("S(")
		for _, e := range x {
			k, ok := hostKey(e)
			if !ok {
				return nil, false
			}
			fmt.Fprintf(&sb, "%T:%v,", k, k)
		}
		sb.WriteString(")")
		return sb.String(), true
	case array:
		var sb strings.Builder
		sb.WriteString("A(")
		for _, e := range x {
			k, ok := hostKey(e)
			if !ok {
				return nil, false
			}
			fmt.Fprintf(&sb, "%T:%v,", k, k)
		}
		sb.WriteString(")")
		return sb.String(), true
	}
	return nil, false
}

func (m *smap) find(k value) *mentry {
	hk, conc := hostKey(k)
	if conc && m.nsym == 0 {
		if m.idx == nil {
			return nil
		}
		return m.idx[hk]
	}
	for i := len(m.entries) - 1; i >= 0; i-- {
		e := m.entries[i]
		if e.deleted {
			continue
		}
		c := eqv(m.t.Key(), k, e.k)
		if b, ok := c.(bool); ok {
			if b {
				return e
			}
			continue
		}
		if truth(c, "map-key-eq") {
			return e
		}
	}
	return nil
}

func (m *smap) lookup(k value) (value, bool) {
	if m == nil {
		return nil, false
	}
	m.checkGuard(false)
	if e := m.find(k); e != nil {
		return e.v, true
	}
	if m.havoc != nil {
		// unknown base: the key may be present with an arbitrary value
		for _, a := range m.absent {
			if truth(eqv(m.t.Key(), k, a), "havoc-map-absent") {
				return nil, false
			}
		}
		present := R.newNondet(0)
		if R.branch(present, "havoc-map-present") {
			v := m.havoc.mk(k)
			m.add(k, v)
			return v, true
		}
		m.absent = append(m.absent, k)
	}
	return nil, false
}

func (m *smap) add(k, v value) *mentry {
	e := &mentry{k: k, v: v}
	m.entries = append(m.entries, e)
	if hk, conc := hostKey(k); conc {
		m.idx[hk] = e
	} else {
		m.nsym++
	}
	return e
}

func (m *smap) insert(k, v value) {
	m.checkGuard(true)
	if e := m.find(k); e != nil {
		e.v = v
		return
	}
	m.add(k, v)
}

func (m *smap) remove(e *mentry) {
	e.deleted = true
	if hk, conc := hostKey(e.k); conc {
		delete(m.idx, hk)
	} else {
		m.nsym--
	}
	for i, x := range m.entries {
		if x == e {
			m.entries = append(m.entries[:i:i], m.entries[i+1:]...)
			break
		}
	}
}

func (m *smap) delete(k value) {
	if m == nil {
		return
	}
	m.checkGuard(true)
	if e := m.find(k); e != nil {
		m.remove(e)
	}
	if m.havoc != nil {
		m.absent = append(m.absent, k)
	}
}

func (m *smap) len() int {
	if m == nil {
		return 0
	}
	m.checkGuard(false)
	if m.havoc != nil {
		panic(engineErr{"len of havoc map"})
	}
	return len(m.entries)
}

type smapIter struct {
	m     *smap
	order []*mentry
	pos   int
}

func (m *smap) iter() *smapIter {
	if m == nil {
		return &smapIter{}
	}
	m.checkGuard(false)
	if m.havoc != nil {
		panic(engineErr{"range over havoc map"})
	}
	order := append([]*mentry(nil), m.entries...)
	if (m.anyOrd || R.cfg.AllMapOrders) && len(order) > 1 && R.initPkg == nil {
		rest := order
		var perm []*mentry
		for len(rest) > 1 {
			c := R.choose("ord", "map-order", make([]*Term, len(rest)))
			perm = append(perm, rest[c])
			rest = append(append([]*mentry(nil), rest[:c]...), rest[c+1:]...)
		}
		order = append(perm, rest...)
	}
	return &smapIter{m: m, order: order}
}

func (it *smapIter) next() tuple {
	for it.pos < len(it.order) {
		e := it.order[it.pos]
		it.pos++
		if e.deleted {
			continue
		}
		return tuple{true, e.k, e.v}
	}
	return tuple{false, nil, nil}
}

// clear removes every entry (builtin clear).
func (m *smap) clear() {
	m.checkGuard(true)
	if m.havoc != nil {
		panic(engineErr{"clear of havoc map"})
	}
	for _, e := range m.entries {
		e.deleted = true
	}
	m.entries = nil
	m.idx = map[interface{}]*mentry{}
	m.nsym = 0
}
