package main

// A Run executes the harness once, following a decision prefix and extending it.

import (
	"fmt"
	"os/exec"
	"sort"
	"strconv"
	"strings"
	"sync"
	"time"

	"golang.org/x/tools/go/ssa"
)

type Decision struct {
	Kind   string   `json:"k"`           // br, chk, sched, sel, conc, ord
	Choice int      `json:"c"`           // chosen alternative
	N      int      `json:"n,omitempty"` // number of alternatives
	Val    uint64   `json:"v,omitempty"` // conc: chosen value
	Excl   []uint64 `json:"x,omitempty"` // conc: excluded values (when Choice==1)
	Site   string   `json:"s,omitempty"`
}

type Violation struct {
	Property string     `json:"property"`
	Harness  string     `json:"harness"`
	Label    string     `json:"label"`
	Kind     string     `json:"kind"` // assert, panic, deadlock, unwind, race
	Site     string     `json:"site"`
	Detail   string     `json:"detail"`
	Vector   []uint64   `json:"vector"`
	Prefix   []Decision `json:"prefix"`
	Fp       string     `json:"fingerprint"`
}

type Nondet struct {
	Name string
	T    *Term
}

// control-flow signals (host panics)
type engineErr struct{ msg string }   // unsupported / internal: run is inconclusive
type runAbort struct{ reason string } // path pruned (infeasible / assume false) or finished early
type threadKill struct{}              // thread told to unwind at end of run

func (e engineErr) Error() string { return "engine: " + e.msg }

type Run struct {
	cfg     *Config
	sol     *Solver
	prefix  []Decision
	decs    []Decision
	pending [][]Decision // new prefixes discovered by this run
	pc      []*Term      // asserted path condition (already sent or queued)
	nondets []Nondet
	pinned  []uint64 // pinned vector (concrete mode); nil = symbolic
	pinPos  int
	pinEnv  map[string]uint64

	steps      int64
	violations []Violation
	events     []string // inconclusive reasons
	reach      map[string]bool
	stubs      map[string]int
	ghost      []string
	pruned     bool
	mdl        map[string]uint64
	mdlOK      bool
	modelHits  int

	lastPanicSite string
	lastPanicMsg  string

	// threads (sched.go)
	threads      []*thread
	cur          *thread
	preempts     int
	timers       []*timer
	depth        int
	over         bool
	endPanic     interface{}
	finished     chan struct{}
	wg           sync.WaitGroup
	chanSeq      int
	now          int64
	timerFires   int
	asserts      int
	abstractions int

	globals map[*ssa.Global]*value
	pkgInit map[*ssa.Package]bool
	initPkg *ssa.Package
	fnSteps map[*ssa.Function]int

	lastRecovered    string
	lastRecoveredMsg string

	mutexes         map[*value]*mutexState
	wgs             map[*value]*wgState
	onces           map[*value]*onceState
	atomicVals      map[*value]value
	timerOf         map[*value]*timer
	sleeps          []int64
	noSched         int
	curFrame        *frame
	watched         map[*value]string
	pools           map[*value][]value
	race            *raceState
	pcHard          bool
	hardScanned     int
	altModel        map[string]uint64
	intBlastQueries int
}

var R *Run // the single active run of this process

func (r *Run) curFuncName() string {
	if r.curFrame != nil && r.curFrame.fn != nil {
		return r.curFrame.fn.String()
	}
	return "?"
}

func (r *Run) site(fr *frame) string {
	if fr == nil || fr.fn == nil {
		return "?"
	}
	return fr.fn.String()
}

func (r *Run) addPC(t *Term) {
	if t.isConst() {
		if t.val == 0 {
			panic(runAbort{"pc false"})
		}
		return
	}
	r.pc = append(r.pc, t)
	if r.mdlOK && t.eval(r.mdl, map[*Term]uint64{}) != 1 {
		r.mdlOK = false
	}
	if r.sol != nil {
		r.sol.assert(t)
	}
}

func (r *Run) inPrefix() bool { return len(r.decs) < len(r.prefix) }

// record appends a decision and opens its solver scope.
func (r *Run) record(d Decision) {
	r.decs = append(r.decs, d)
	if r.sol != nil {
		r.sol.enter(len(r.decs)-1, d)
	}
}

func (r *Run) pushAlt(d Decision) {
	alt := make([]Decision, len(r.decs), len(r.decs)+1)
	copy(alt, r.decs)
	alt = append(alt, d)
	r.pending = append(r.pending, alt)
}

func (r *Run) checkLimits() {
	if len(r.decs) > r.cfg.MaxDecisions {
		if r.cfg.UnwindViolation {
			// termination obligation: exceeding the unwinding bound is the counterexample
			r.violation("unwind", "does not terminate within the unwinding bound", r.curFuncName(), fmt.Sprintf("more than %d decisions on one path", r.cfg.MaxDecisions), nil)
			panic(runAbort{"unwind"})
		}
		r.event("UNWIND: more than %d decisions on one path (last site %s)", r.cfg.MaxDecisions, r.decs[len(r.decs)-1].Site)
		panic(runAbort{"unwind"})
	}
}

func (r *Run) event(f string, a ...interface{}) {
	r.events = append(r.events, fmt.Sprintf(f, a...))
}

// holdsInModel reports whether c is true under the cached model of the path condition.
func (r *Run) holdsInModel(c *Term) bool {
	return r.mdlOK && c.eval(r.mdl, map[*Term]uint64{}) == 1
}

// fetchModel reads the solver's current model (after a sat answer) into the cache.
func (r *Run) fetchModel() {
	names := make([]string, 0, len(r.nondets))
	for _, n := range r.nondets {
		if _, ok := r.sol.defs.level[n.Name]; ok {
			names = append(names, n.Name)
		}
	}
	r.mdl = r.sol.values(names)
	r.mdlOK = true
}

// feasible decides whether pc ∧ c is satisfiable. If commit is set and the
// answer came from the solver, the model cache is refreshed for pc ∧ c.
func (r *Run) feasible(c *Term, commit bool) satResult {
	if c == nil {
		return resSat
	}
	if c.isConst() {
		if c.val == 1 {
			return resSat
		}
		return resUnsat
	}
	if r.pinned != nil {
		if c.eval(r.pinEnv, map[*Term]uint64{}) == 1 {
			return resSat
		}
		return resUnsat
	}
	if r.holdsInModel(c) {
		r.modelHits++
		return resSat
	}
	if r.hardArith(c) {
		// multiplication / division kernels: bit-blasting stalls, integer encoding decides
		if res, mdl := r.intBlastCheck(c); res != resUnknown {
			if res == resSat && commit {
				r.mdl, r.mdlOK = mdl, true
			} else if res == resSat {
				r.altModel = mdl
			}
			return res
		}
	}
	res := r.sol.check(c)
	if res == resUnknown {
		if res2, mdl := r.intBlastCheck(c); res2 != resUnknown {
			if res2 == resSat && commit {
				r.mdl, r.mdlOK = mdl, true
			} else if res2 == resSat {
				r.altModel = mdl
			}
			return res2
		}
		r.event("SOLVER-UNKNOWN on feasibility query (%s)", r.sol.lastErr)
	}
	if res == resSat && commit {
		r.fetchModel()
	}
	return res
}

var hardOps = map[string]bool{"bvsdiv": true, "bvudiv": true, "bvsrem": true, "bvurem": true}

func termHard(t *Term, seen map[*Term]bool) bool {
	if t == nil {
		return false
	}
	if t.op == "const" || t.op == "var" || seen[t] {
		return false
	}
	seen[t] = true
	if hardOps[t.op] {
		return true
	}
	for _, a := range t.args {
		if termHard(a, seen) {
			return true
		}
	}
	return false
}

// hardArith reports whether the query (path condition plus c) contains wide
// multiplication or any division / remainder.
func (r *Run) hardArith(c *Term) bool {
	for r.hardScanned < len(r.pc) {
		if termHard(r.pc[r.hardScanned], map[*Term]bool{}) {
			r.pcHard = true
		}
		r.hardScanned++
	}
	return r.pcHard || termHard(c, map[*Term]bool{})
}

// intBlastCheck decides pc ∧ c with cvc5's integer encoding of bit-vectors
// (--solve-bv-as-int=sum keeps the mod-2^k semantics) in a one-shot process.
func (r *Run) intBlastCheck(c *Term) (satResult, map[string]uint64) {
	var sb strings.Builder
	sb.WriteString("(set-logic QF_BV)\n")
	defs := newDefTable()
	for _, t := range r.pc {
		emitDefs(t, defs, 0, &sb)
		fmt.Fprintf(&sb, "(assert %s)\n", t.ref())
	}
	if c != nil && !c.isConst() {
		emitDefs(c, defs, 0, &sb)
		fmt.Fprintf(&sb, "(assert %s)\n", c.ref())
	}
	sb.WriteString("(check-sat)\n")
	var names []string
	for _, n := range r.nondets {
		if _, ok := defs.level[n.Name]; ok {
			names = append(names, n.Name)
		}
	}
	if len(names) > 0 {
		sb.WriteString("(get-value (" + strings.Join(names, " ") + "))\n")
	}
	t0 := time.Now()
	cmd := exec.Command("cvc5", "--lang=smt2", "--produce-models", "--solve-bv-as-int=sum", fmt.Sprintf("--tlimit=%d", r.cfg.TimeoutMs*2))
	cmd.Stdin = strings.NewReader(sb.String())
	outb, _ := cmd.Output()
	r.sol.solveTime += time.Since(t0)
	r.intBlastQueries++
	out := string(outb)
	first := strings.TrimSpace(strings.SplitN(out, "\n", 2)[0])
	switch first {
	case "unsat":
		r.sol.nUnsat++
		return resUnsat, nil
	case "sat":
		r.sol.nSat++
		mdl := map[string]uint64{}
		for _, m := range valRe.FindAllStringSubmatch(out, -1) {
			var v uint64
			switch {
			case m[2] == "true":
				v = 1
			case m[2] == "false":
				v = 0
			case strings.HasPrefix(m[2], "#x"):
				v, _ = strconv.ParseUint(m[2][2:], 16, 64)
			default:
				v, _ = strconv.ParseUint(m[2][2:], 2, 64)
			}
			mdl[m[1]] = v
		}
		return resSat, mdl
	}
	return resUnknown, nil
}

// choose makes an n-way decision; conds[i] is the condition under which
// alternative i is possible (nil = unconditionally).
func (r *Run) choose(kind, site string, conds []*Term) int {
	n := len(conds)
	if r.inPrefix() {
		d := r.prefix[len(r.decs)]
		if d.Kind != kind || d.Choice >= n {
			panic(engineErr{fmt.Sprintf("prefix divergence at %d: want %s/%d have %s at %s (recorded %s)", len(r.decs), d.Kind, d.Choice, kind, site, d.Site)})
		}
		r.record(d)
		if conds[d.Choice] != nil {
			r.addPC(conds[d.Choice])
		}
		return d.Choice
	}
	r.checkLimits()
	var feas []int
	for i, c := range conds {
		// if every earlier alternative was infeasible, the last one must hold
		if i == n-1 && len(feas) == 0 {
			feas = append(feas, i)
			break
		}
		if r.feasible(c, len(feas) == 0) != resUnsat {
			feas = append(feas, i)
		}
	}
	for _, j := range feas[1:] {
		r.pushAlt(Decision{Kind: kind, Choice: j, N: n, Site: site})
	}
	c := feas[0]
	r.record(Decision{Kind: kind, Choice: c, N: n, Site: site})
	if conds[c] != nil {
		r.addPC(conds[c])
	}
	return c
}

// branch decides a symbolic boolean.
func (r *Run) branch(c *Term, site string) bool {
	if c.isConst() {
		return c.val == 1
	}
	if r.pinned != nil {
		return c.eval(r.pinEnv, map[*Term]uint64{}) == 1
	}
	return r.choose("br", site, []*Term{c, mkNot(c)}) == 0
}

// concretize picks a concrete value for t (forking over all feasible values).
func (r *Run) concretize(t *Term, site string) uint64 {
	return r.concretizeOpt(t, site, false)
}

// concretizeOpt with single=true picks one witness and does not fork over the others
// (used only where an abstraction is recorded).
func (r *Run) concretizeOpt(t *Term, site string, single bool) uint64 {
	if t.isConst() {
		return t.val
	}
	if r.pinned != nil {
		return t.eval(r.pinEnv, map[*Term]uint64{})
	}
	excl := []uint64(nil)
	if r.inPrefix() {
		d := r.prefix[len(r.decs)]
		if d.Kind != "conc" {
			panic(engineErr{fmt.Sprintf("prefix divergence at %d: want %s have conc at %s", len(r.decs), d.Kind, site)})
		}
		if d.Choice == 0 {
			r.record(d)
			r.addPC(r.eqConst(t, d.Val))
			return d.Val
		}
		excl = d.Excl
		// the last prefix element is an "anything but excl" alternative: resolved below
		if len(r.decs) != len(r.prefix)-1 {
			panic(engineErr{"open concretize alternative inside prefix"})
		}
		r.prefix = r.prefix[:len(r.decs)]
	}
	r.checkLimits()
	// open the scope first so that the exclusions live inside it
	r.record(Decision{Kind: "conc", Choice: 1, Excl: excl, Site: site})
	for _, x := range excl {
		r.addPC(mkNot(r.eqConst(t, x)))
	}
	var v uint64
	if r.mdlOK {
		v = t.eval(r.mdl, map[*Term]uint64{})
		r.modelHits++
	} else {
		res := r.sol.check(nil)
		if res == resUnsat {
			r.pruned = true
			panic(runAbort{"concretize exhausted"})
		}
		if res == resUnknown {
			r.event("SOLVER-UNKNOWN in concretize at %s", site)
			panic(runAbort{"unknown"})
		}
		r.fetchModel()
		v = t.eval(r.mdl, map[*Term]uint64{})
	}
	final := Decision{Kind: "conc", Choice: 0, Val: v, Site: site}
	r.decs[len(r.decs)-1] = final
	r.sol.stack[len(r.decs)-1] = final
	if single {
		// one witness only
	} else if len(excl)+1 > r.cfg.MaxConcretize {
		r.event("UNWIND: more than %d values when concretizing at %s", r.cfg.MaxConcretize, site)
	} else {
		nx := append(append([]uint64(nil), excl...), v)
		saved := r.decs
		r.decs = r.decs[:len(r.decs)-1]
		r.pushAlt(Decision{Kind: "conc", Choice: 1, Excl: nx, Site: site})
		r.decs = saved
	}
	r.addPC(r.eqConst(t, v))
	return v
}

func (r *Run) eqConst(t *Term, v uint64) *Term {
	if t.w == 0 {
		if v == 1 {
			return t
		}
		return mkNot(t)
	}
	return bvCmp("=", t, mkConst(t.w, v))
}

// model returns values of all nondet variables satisfying the path condition
// (and extra, if given).
func (r *Run) model(extra *Term) ([]uint64, bool) {
	if r.pinned != nil {
		return append([]uint64(nil), r.pinned...), true
	}
	if !(r.mdlOK && (extra == nil || r.holdsInModel(extra))) {
		if extra != nil && r.altModel != nil && extra.eval(r.altModel, map[*Term]uint64{}) == 1 {
			vec := make([]uint64, len(r.nondets))
			for i, n := range r.nondets {
				vec[i] = r.altModel[n.Name]
			}
			return vec, true
		}
		if r.hardArith(extra) {
			if res, mdl := r.intBlastCheck(extra); res == resSat {
				vec := make([]uint64, len(r.nondets))
				for i, n := range r.nondets {
					vec[i] = mdl[n.Name]
				}
				return vec, true
			}
		}
		if r.sol.check(extra) != resSat {
			return nil, false
		}
		saved, ok := r.mdl, r.mdlOK
		r.fetchModel()
		defer func() {
			if extra != nil {
				r.mdl, r.mdlOK = saved, ok
			}
		}()
	}
	vec := make([]uint64, len(r.nondets))
	for i, n := range r.nondets {
		vec[i] = r.mdl[n.Name]
	}
	return vec, true
}

func (r *Run) newNondet(w int) *Term {
	name := fmt.Sprintf("n%d", len(r.nondets))
	t := mkVar(name, w)
	r.nondets = append(r.nondets, Nondet{name, t})
	if r.pinned != nil {
		var v uint64
		if r.pinPos < len(r.pinned) {
			v = r.pinned[r.pinPos]
		}
		r.pinPos++
		r.pinEnv[name] = v
		if w == 0 {
			return mkBool(v&1 == 1)
		}
		return mkConst(w, v)
	}
	return t
}

func (r *Run) violation(kind, label, site, detail string, extra *Term) {
	vec, ok := r.model(extra)
	if !ok {
		r.event("SOLVER: could not produce model for violation %s", label)
		return
	}
	v := Violation{Property: r.cfg.Property, Harness: r.cfg.Entry, Label: label, Kind: kind, Site: site, Detail: detail, Vector: vec}
	v.Prefix = append([]Decision(nil), r.decs...)
	v.Fp = fingerprint(v)
	r.violations = append(r.violations, v)
}

func fingerprint(v Violation) string {
	if v.Kind == "unwind" {
		return strings.Join([]string{v.Harness, v.Kind, v.Label, "", ""}, "|")
	}
	return strings.Join([]string{v.Harness, v.Kind, v.Label, shortName(v.Site), msgClass(v.Detail)}, "|")
}

// msgClass strips the variable parts (numbers, bracketed operands) of a panic message.
func msgClass(m string) string {
	if strings.HasPrefix(m, "assertion ") {
		return ""
	}
	for i, c := range m {
		if c == '[' || c >= '0' && c <= '9' {
			return strings.TrimSpace(m[:i])
		}
	}
	return m
}

func (r *Run) markReach(l string) {
	r.reach[l] = true
}

func sortedKeys(m map[string]bool) []string {
	var ks []string
	for k := range m {
		ks = append(ks, k)
	}
	sort.Strings(ks)
	return ks
}
