package main

// Intrinsics: harness run-time (verif*), sync, atomics, and the stub boundary
// around code that is not interpretable (assembly, unsafe, I/O) or not worth
// interpreting (logging, formatting).

import (
	"fmt"
	"go/ast"
	"go/token"
	"go/types"
	"math"
	"strconv"
	"strings"

	"golang.org/x/tools/go/ssa"
)

type externalFn func(fr *frame, args []value) value

// hostFunc is a function value implemented by the engine.
type hostFunc struct {
	name string
	f    func(fr *frame, args []value) value
}

// boundIntrinsic is an engine-native object that can sit behind an interface.
type boundIntrinsic struct {
	kind string
	call func(fr *frame, method string, args []value) value
	data interface{}
}

type intrinsicMethod struct {
	obj  *boundIntrinsic
	name string
}

var intrinsics = map[string]externalFn{}
var intrinsicCache = map[*ssa.Function]externalFn{}
var intrinsicMiss = map[*ssa.Function]bool{}

// redirects send calls of un-interpretable library methods to a model written
// in Go inside the harness package (executed symbolically like any other code).
// The receiver is passed as the first argument.
var redirects = map[string]string{
	"(*github.com/nats-io/nats.go.Conn).Status":              "verifNatsStatus",
	"(*github.com/nats-io/nats.go.Conn).Publish":             "verifNatsPublish",
	"(*github.com/nats-io/nats.go.Conn).PublishRequest":      "verifNatsPublishRequest",
	"(*github.com/nats-io/nats.go.Conn).Subscribe":           "verifNatsSubscribe",
	"(*github.com/nats-io/nats.go.Conn).QueueSubscribe":      "verifNatsQueueSubscribe",
	"(*github.com/nats-io/nats.go.Conn).ChanQueueSubscribe":  "verifNatsChanQueueSubscribe",
	"(*github.com/nats-io/nats.go.Conn).ChanSubscribe":       "verifNatsChanSubscribe",
	"(*github.com/nats-io/nats.go.Conn).Flush":               "verifNatsFlush",
	"(*github.com/nats-io/nats.go.Conn).FlushTimeout":        "verifNatsFlushTimeout",
	"(*github.com/nats-io/nats.go.Conn).Barrier":             "verifNatsBarrier",
	"(*github.com/nats-io/nats.go.Conn).NewRespInbox":        "verifNatsNewInbox",
	"github.com/nats-io/nats.go.NewInbox":                    "verifNatsNewInbox0",
	"(*github.com/nats-io/nats.go.Subscription).Unsubscribe": "verifNatsUnsubscribe",
	"(*github.com/nats-io/nats.go.Subscription).Drain":       "verifNatsDrain",
	"(*github.com/nats-io/nats.go.Subscription).IsValid":     "verifNatsSubIsValid",
	"(*github.com/go-stomp/stomp.Conn).Ack":                  "verifStompAck",
	"(*github.com/go-stomp/stomp.Conn).Nack":                 "verifStompNack",
	"(*github.com/go-stomp/stomp.Conn).Send":                 "verifStompSend",
	"(*github.com/go-stomp/stomp.Conn).Subscribe":            "verifStompSubscribe",
	"(*github.com/go-stomp/stomp.Subscription).Unsubscribe":  "verifStompUnsubscribe",
	"(*github.com/go-stomp/stomp.Subscription).Active":       "verifStompActive",
	"github.com/nats-io/nuid.Next":                           "verifNuidNext",
	"(*net/http.Client).Do":                                  "verifHTTPDo",
	"github.com/Workiva/frugal/compiler/parser.ParseFrugal":  "verifParseFrugal",
	"github.com/Workiva/frugal/compiler/parser.ParseReader":  "verifParseReader",
	"os.Getwd": "verifGetwd",
	"github.com/Workiva/frugal/compiler.exists":         "verifExists",
	"github.com/Workiva/frugal/compiler.generateFrugal": "verifGenerateFrugal",
	"os.Open":          "verifOsOpen",
	"(*os.File).Close": "verifFileClose",
	"(*os.File).Name":  "verifFileName",
	"(*os.File).Stat":  "verifFileStat",
}

// library types the harnesses replace by a zero value plus redirected methods
var modelledReceivers = []string{
	"(*github.com/nats-io/nats.go.Conn)",
	"(*github.com/nats-io/nats.go.Subscription)",
	"(*github.com/go-stomp/stomp.Conn)",
	"(*github.com/go-stomp/stomp.Subscription)",
}

// packages all of whose functions are no-ops returning zero values
var nopPackages = map[string]bool{
	"github.com/sirupsen/logrus": true,
	"log":                        true,
}

func lookupIntrinsic(fn *ssa.Function) externalFn {
	if f, ok := intrinsicCache[fn]; ok {
		return f
	}
	if intrinsicMiss[fn] {
		return nil
	}
	name := fn.String()
	var f externalFn
	if strings.HasPrefix(fn.Name(), "verif") && fn.Pkg == I.harnessPkg {
		f = verifIntrinsics[fn.Name()]
	}
	if f == nil {
		f = intrinsics[name]
	}
	if f == nil {
		if target, ok := redirects[name]; ok {
			if hf := I.harnessPkg.Func(target); hf != nil {
				f = func(fr *frame, args []value) value { return callSSA(fr, hf, args, nil) }
			}
		}
	}
	if f == nil && fn.Signature.Recv() != nil && ast.IsExported(fn.Name()) {
		// the harness stands in for this library type with a zero value and models a fixed set of its
		// methods; any other method would run the library's real code on that zero value, which says
		// nothing about the code under test: the run is inconclusive, not a finding
		for _, recv := range modelledReceivers {
			if strings.HasPrefix(name, recv+".") {
				f = func(fr *frame, args []value) value {
					panic(engineErr{"library method " + name + " is outside the environment model (zz_verif_nats.go / stomp model)"})
				}
			}
		}
	}
	if f == nil && fn.Pkg != nil && nopPackages[fn.Pkg.Pkg.Path()] {
		f = func(fr *frame, args []value) value { return zeroResults(fn) }
	}
	if f == nil && fn.Pkg == nil && fn.Signature.Recv() != nil {
		// method of an instantiated generic or wrapper without package: check receiver package
		if o := fn.Object(); o != nil && o.Pkg() != nil && nopPackages[o.Pkg().Path()] {
			f = func(fr *frame, args []value) value { return zeroResults(fn) }
		}
	}
	if f == nil {
		intrinsicMiss[fn] = true
		return nil
	}
	intrinsicCache[fn] = f
	return f
}

// ---------------------------------------------------------------------------
// harness run-time

var verifIntrinsics = map[string]externalFn{}

func init() {
	verifIntrinsics["verifNondetRaw"] = func(fr *frame, args []value) value {
		return symVal(R.newNondet(64), types.Uint64)
	}
	verifIntrinsics["verifAssume"] = func(fr *frame, args []value) value {
		switch c := args[0].(type) {
		case bool:
			if !c {
				R.pruned = true
				panic(runAbort{"assume false"})
			}
		case *Sym:
			if R.pinned != nil {
				if c.T.eval(R.pinEnv, map[*Term]uint64{}) != 1 {
					R.pruned = true
					panic(runAbort{"assume false"})
				}
				return nil
			}
			if R.feasible(c.T, true) == resUnsat {
				R.pruned = true
				panic(runAbort{"assume infeasible"})
			}
			R.addPC(c.T)
		}
		return nil
	}
	verifIntrinsics["verifAssert"] = func(fr *frame, args []value) value {
		label := toGoString(args[1])
		R.asserts++
		switch c := args[0].(type) {
		case bool:
			if !c {
				R.violation("assert", label, callerName(fr), "assertion is false on this path", nil)
				panic(runAbort{"assertion failed"})
			}
		case *Sym:
			neg := mkNot(c.T)
			res := R.feasible(neg, false)
			if res == resSat {
				R.violation("assert", label, callerName(fr), "assertion can be false", neg)
			} else if res == resUnknown {
				R.event("SOLVER-UNKNOWN on assertion %q", label)
			}
			if R.feasible(c.T, true) == resUnsat {
				panic(runAbort{"assertion always false"})
			}
			R.addPC(c.T)
		}
		return nil
	}
	verifIntrinsics["verifFail"] = func(fr *frame, args []value) value {
		label := toGoString(args[0])
		site := R.lastRecovered
		if site == "" {
			site = callerName(fr)
		}
		R.violation("panic", label, site, R.lastRecoveredMsg, nil)
		panic(runAbort{"fail"})
	}
	verifIntrinsics["verifReach"] = func(fr *frame, args []value) value {
		R.markReach(toGoString(args[0]))
		return nil
	}
	verifIntrinsics["verifConcretize"] = func(fr *frame, args []value) value {
		return concValue(args[0], "verifConcretize")
	}
	verifIntrinsics["verifMapOrder"] = func(fr *frame, args []value) value {
		if m, ok := args[0].(iface).v.(*smap); ok && m != nil {
			m.anyOrd = true
		}
		return nil
	}
	// verifHavocChanMap turns a map[K]chan T into an arbitrary unknown map: a key
	// not set explicitly is present or absent by decision; a present one maps to a
	// fresh channel of capacity 1 that is empty or full by decision.
	verifIntrinsics["verifHavocChanMap"] = func(fr *frame, args []value) value {
		m := args[0].(iface).v.(*smap)
		filler := args[1].(iface).v
		m.havoc = &havocInfo{mk: func(key value) value {
			ch := newChan(1)
			full := R.newNondet(0)
			if R.branch(full, "havoc-chan-full") {
				ch.buf = append(ch.buf, filler)
			}
			return ch
		}}
		return nil
	}
	verifIntrinsics["verifThreadBlockedOn"] = func(fr *frame, args []value) value {
		name, op := toGoString(args[0]), toGoString(args[1])
		for _, t := range R.threads {
			if !t.done && t.guard != nil && !t.guard() && strings.Contains(t.name, name) && strings.Contains(t.blockedOn, op) {
				return true
			}
		}
		return false
	}
	verifIntrinsics["verifChanLen"] = func(fr *frame, args []value) value {
		c, _ := args[0].(iface).v.(*chanObj)
		if c == nil {
			return 0
		}
		return len(c.buf)
	}
	// verifGuard(m, &mu, name): every access to map m must hold mu (read: R or W, write: W).
	verifIntrinsics["verifGuard"] = func(fr *frame, args []value) value {
		m, _ := args[0].(iface).v.(*smap)
		if m != nil {
			m.guard = args[1].(iface).v.(*value)
			m.gname = toGoString(args[2])
		}
		return nil
	}
	// verifWatch(&x, name): x may only be accessed through sync/atomic once other goroutines exist.
	verifIntrinsics["verifWatch"] = func(fr *frame, args []value) value {
		if R.watched == nil {
			R.watched = map[*value]string{}
		}
		R.watched[args[0].(iface).v.(*value)] = toGoString(args[1])
		return nil
	}
	// verifBlockUntil(cond): park the calling thread until the (side-effect free) closure returns true.
	verifIntrinsics["verifBlockUntil"] = func(fr *frame, args []value) value {
		f := args[0]
		schedPoint("verifBlockUntil")
		blockUntil(func() bool {
			R.noSched++
			defer func() { R.noSched-- }()
			return truth(call(nil, token.NoPos, f, nil), "verifBlockUntil")
		}, "verifBlockUntil in "+shortName(callerName(fr)))
		return nil
	}
	verifIntrinsics["verifMutexHeld"] = func(fr *frame, args []value) value {
		w, _ := R.mutexHeld(args[0].(iface).v.(*value))
		return w
	}
	// verifRange(lo, hi): a symbolic int in [lo,hi] constrained without branching.
	verifIntrinsics["verifRange"] = func(fr *frame, args []value) value {
		lo, hi := asInt64(args[0]), asInt64(args[1])
		if lo > hi {
			R.pruned = true
			panic(runAbort{"empty range"})
		}
		if lo == hi {
			return int(lo)
		}
		v := R.newNondet(64)
		if v.isConst() { // pinned
			if sext(v.val, 64) < lo || sext(v.val, 64) > hi {
				R.pruned = true
				panic(runAbort{"assume false"})
			}
			return int(v.val)
		}
		R.addPC(mkAnd(bvCmp("bvsle", mkConst(64, uint64(lo)), v), bvCmp("bvsle", v, mkConst(64, uint64(hi)))))
		return symVal(v, types.Int)
	}
	// verifAdvanceClock(d): virtual time passes.
	verifIntrinsics["verifAdvanceClock"] = func(fr *frame, args []value) value {
		R.now += asInt64(args[0])
		return nil
	}
	verifIntrinsics["verifLog"] = func(fr *frame, args []value) value {
		R.ghost = append(R.ghost, toGoString(args[0]))
		return nil
	}
	verifIntrinsics["verifSymbolic"] = func(fr *frame, args []value) value {
		return hasSym(args[0].(iface).v) || sliceHasSym(args[0].(iface).v)
	}
	verifIntrinsics["verifYield"] = func(fr *frame, args []value) value {
		schedPoint("yield:" + toGoString(args[0]))
		return nil
	}
	verifIntrinsics["verifParam"] = func(fr *frame, args []value) value {
		return R.cfg.Param
	}
	verifIntrinsics["verifBound"] = func(fr *frame, args []value) value {
		return R.cfg.Bound
	}
	verifIntrinsics["verifPreempts"] = func(fr *frame, args []value) value {
		return R.preempts
	}
}

func sliceHasSym(v value) bool {
	if s, ok := v.([]value); ok {
		for _, e := range s {
			if hasSym(e) {
				return true
			}
		}
	}
	return false
}

func callerName(fr *frame) string {
	if fr != nil && fr.caller != nil {
		return fr.caller.fn.String()
	}
	return "?"
}

// toGoString renders an interpreted string for labels (symbolic bytes as '?').
func toGoString(v value) string {
	switch s := v.(type) {
	case string:
		return s
	case symstr:
		var sb strings.Builder
		for _, e := range s {
			if b, ok := e.(uint8); ok {
				sb.WriteByte(b)
			} else {
				sb.WriteByte('?')
			}
		}
		return sb.String()
	case fmtstr:
		return "<dec>"
	}
	return toString(v)
}

// ---------------------------------------------------------------------------
// sync, atomic

func init() {
	intrinsics["(*sync.Mutex).Lock"] = func(fr *frame, a []value) value {
		mutexLock(ptrArg(a[0]), "Mutex.Lock in "+shortName(callerName(fr)))
		return nil
	}
	intrinsics["(*sync.Mutex).Unlock"] = func(fr *frame, a []value) value {
		mutexUnlock(ptrArg(a[0]), "Mutex.Unlock in "+shortName(callerName(fr)))
		return nil
	}
	intrinsics["(*sync.Mutex).TryLock"] = func(fr *frame, a []value) value {
		m := R.mutex(ptrArg(a[0]))
		schedPoint("TryLock")
		if m.locked || m.readers > 0 {
			return false
		}
		m.locked = true
		return true
	}
	intrinsics["(*sync.RWMutex).Lock"] = func(fr *frame, a []value) value {
		mutexLock(ptrArg(a[0]), "RWMutex.Lock in "+shortName(callerName(fr)))
		return nil
	}
	intrinsics["(*sync.RWMutex).Unlock"] = func(fr *frame, a []value) value {
		mutexUnlock(ptrArg(a[0]), "RWMutex.Unlock in "+shortName(callerName(fr)))
		return nil
	}
	intrinsics["(*sync.RWMutex).RLock"] = func(fr *frame, a []value) value {
		mutexRLock(ptrArg(a[0]), "RWMutex.RLock in "+shortName(callerName(fr)))
		return nil
	}
	intrinsics["(*sync.RWMutex).RUnlock"] = func(fr *frame, a []value) value {
		mutexRUnlock(ptrArg(a[0]), "RWMutex.RUnlock in "+shortName(callerName(fr)))
		return nil
	}

	intrinsics["(*sync.WaitGroup).Add"] = func(fr *frame, a []value) value {
		p := ptrArg(a[0])
		w := R.wgs[p]
		if w == nil {
			w = &wgState{}
			R.wgs[p] = w
		}
		schedPoint("WaitGroup.Add")
		R.raceRelease(w)
		w.n += asInt64(concValue(a[1], "wg.Add"))
		if w.n < 0 {
			panic(targetPanic{iface{types.Typ[types.String], "sync: negative WaitGroup counter"}})
		}
		return nil
	}
	intrinsics["(*sync.WaitGroup).Done"] = func(fr *frame, a []value) value {
		return intrinsics["(*sync.WaitGroup).Add"](fr, []value{a[0], int(-1)})
	}
	intrinsics["(*sync.WaitGroup).Wait"] = func(fr *frame, a []value) value {
		p := ptrArg(a[0])
		schedPoint("WaitGroup.Wait")
		blockUntil(func() bool { w := R.wgs[p]; return w == nil || w.n == 0 }, "WaitGroup.Wait in "+shortName(callerName(fr)))
		if w := R.wgs[p]; w != nil {
			R.raceAcquire(w)
		}
		return nil
	}
	intrinsics["(*sync.Once).Do"] = func(fr *frame, a []value) value {
		p := ptrArg(a[0])
		o := R.onces[p]
		if o == nil {
			o = &onceState{}
			R.onces[p] = o
		}
		schedPoint("Once.Do")
		blockUntil(func() bool { return !o.running }, "Once.Do")
		if o.done {
			R.raceAcquire(o)
			return nil
		}
		o.running = true
		defer func() { o.running = false; o.done = true; R.raceRelease(o) }()
		call(fr, token.NoPos, a[1], nil)
		return nil
	}
	// sync.Pool: Get returns an item that was Put earlier or a fresh one (both explored:
	// the real pool may drop items at any time)
	intrinsics["(*sync.Pool).Get"] = func(fr *frame, a []value) value {
		p := ptrArg(a[0])
		if items := R.pools[p]; len(items) > 0 {
			if R.choose("sel", "sync.Pool.Get", make([]*Term, 2)) == 0 {
				it := items[len(items)-1]
				R.pools[p] = items[:len(items)-1]
				R.raceAcquire(p)
				return it
			}
		}
		st := (*p).(structure)
		newf := st[len(st)-1]
		if f, ok := newf.(*ssa.Function); ok && f == nil {
			return iface{}
		}
		return call(fr, token.NoPos, newf, nil)
	}
	intrinsics["(*sync.Pool).Put"] = func(fr *frame, a []value) value {
		p := ptrArg(a[0])
		if R.pools == nil {
			R.pools = map[*value][]value{}
		}
		R.pools[p] = append(R.pools[p], a[1])
		R.raceRelease(p)
		return nil
	}

	// atomics on plain cells
	for _, k := range []struct {
		name string
		kind types.BasicKind
	}{{"Int32", types.Int32}, {"Int64", types.Int64}, {"Uint32", types.Uint32}, {"Uint64", types.Uint64}, {"Uintptr", types.Uintptr}} {
		kind := k.kind
		typ := types.Typ[kind]
		intrinsics["sync/atomic.Add"+k.name] = func(fr *frame, a []value) value {
			p := ptrArg(a[0])
			schedPoint("atomic.Add")
			R.raceSync(p)
			*p = binop(token.ADD, typ, *p, a[1])
			return *p
		}
		intrinsics["sync/atomic.Load"+k.name] = func(fr *frame, a []value) value {
			p := ptrArg(a[0])
			schedPoint("atomic.Load")
			R.raceSync(p)
			return *p
		}
		intrinsics["sync/atomic.Store"+k.name] = func(fr *frame, a []value) value {
			p := ptrArg(a[0])
			schedPoint("atomic.Store")
			R.raceSync(p)
			*p = a[1]
			return nil
		}
		intrinsics["sync/atomic.Swap"+k.name] = func(fr *frame, a []value) value {
			p := ptrArg(a[0])
			schedPoint("atomic.Swap")
			R.raceSync(p)
			old := *p
			*p = a[1]
			return old
		}
		intrinsics["sync/atomic.CompareAndSwap"+k.name] = func(fr *frame, a []value) value {
			p := ptrArg(a[0])
			schedPoint("atomic.CAS")
			R.raceSync(p)
			if truth(eqv(typ, *p, a[1]), "atomic.CAS") {
				*p = a[2]
				return true
			}
			return false
		}
		// typed atomics: struct{ _ noCopy; [_ align64;] v T }
		tn := "(*sync/atomic." + k.name + ")."
		cell := func(a []value) *value {
			st := (*ptrArg(a[0])).(structure)
			return &st[len(st)-1]
		}
		intrinsics[tn+"Add"] = func(fr *frame, a []value) value {
			p := cell(a)
			schedPoint("atomic.Add")
			R.raceSync(p)
			*p = binop(token.ADD, typ, *p, a[1])
			return *p
		}
		intrinsics[tn+"Load"] = func(fr *frame, a []value) value { schedPoint("atomic.Load"); R.raceSync(cell(a)); return *cell(a) }
		intrinsics[tn+"Store"] = func(fr *frame, a []value) value {
			schedPoint("atomic.Store")
			R.raceSync(cell(a))
			*cell(a) = a[1]
			return nil
		}
		intrinsics[tn+"Swap"] = func(fr *frame, a []value) value {
			p := cell(a)
			schedPoint("atomic.Swap")
			R.raceSync(p)
			old := *p
			*p = a[1]
			return old
		}
		intrinsics[tn+"CompareAndSwap"] = func(fr *frame, a []value) value {
			p := cell(a)
			schedPoint("atomic.CAS")
			R.raceSync(p)
			if truth(eqv(typ, *p, a[1]), "atomic.CAS") {
				*p = a[2]
				return true
			}
			return false
		}
	}
	boolCell := func(a []value) *value {
		st := (*ptrArg(a[0])).(structure)
		return &st[len(st)-1]
	}
	intrinsics["(*sync/atomic.Bool).Load"] = func(fr *frame, a []value) value {
		schedPoint("atomic.Load")
		R.raceSync(boolCell(a))
		return truth(binop(token.NEQ, types.Typ[types.Uint32], *boolCell(a), uint32(0)), "atomic.Bool")
	}
	intrinsics["(*sync/atomic.Bool).Store"] = func(fr *frame, a []value) value {
		schedPoint("atomic.Store")
		R.raceSync(boolCell(a))
		if truth(a[1], "atomic.Bool") {
			*boolCell(a) = uint32(1)
		} else {
			*boolCell(a) = uint32(0)
		}
		return nil
	}
	// atomic.Value: keep the stored interface beside the struct
	intrinsics["(*sync/atomic.Value).Load"] = func(fr *frame, a []value) value {
		schedPoint("atomic.Value.Load")
		R.raceSync(ptrArg(a[0]))
		if v, ok := R.atomicVals[ptrArg(a[0])]; ok {
			return v
		}
		return iface{}
	}
	intrinsics["(*sync/atomic.Value).Store"] = func(fr *frame, a []value) value {
		schedPoint("atomic.Value.Store")
		R.raceSync(ptrArg(a[0]))
		R.atomicVals[ptrArg(a[0])] = a[1]
		return nil
	}
	intrinsics["runtime.Gosched"] = func(fr *frame, a []value) value { schedPoint("Gosched"); return nil }
	intrinsics["runtime.GOMAXPROCS"] = func(fr *frame, a []value) value { return 4 }
	intrinsics["runtime.NumCPU"] = func(fr *frame, a []value) value { return 4 }
	intrinsics["runtime.KeepAlive"] = func(fr *frame, a []value) value { return nil }
	intrinsics["runtime.SetFinalizer"] = func(fr *frame, a []value) value { return nil }
}

// ---------------------------------------------------------------------------
// strconv, bytealg, strings.Builder

func goStr(v value, site string) string {
	switch s := v.(type) {
	case string:
		return s
	case symstr:
		bs := make([]byte, len(s))
		for i, e := range s {
			bs[i] = concValue(e, site).(uint8)
		}
		return string(bs)
	case fmtstr:
		return s.concrete()
	}
	panic(engineErr{fmt.Sprintf("goStr of %T", v)})
}

func allConcrete(args []value) bool {
	for _, a := range args {
		if hasSym(a) || sliceHasSym(a) {
			return false
		}
	}
	return true
}

func goBytes(v value, site string) []byte {
	s := v.([]value)
	bs := make([]byte, len(s))
	for i, e := range s {
		bs[i] = concValue(e, site).(uint8)
	}
	return bs
}

func fromBytes(b []byte) []value {
	r := make([]value, len(b))
	for i, x := range b {
		r[i] = x
	}
	return r
}

func errorValue(err error) value {
	if err == nil {
		return iface{}
	}
	return makeError(err.Error())
}

// makeError builds an interpreted *errors.errorString.
func makeError(msg value) value {
	pkg := I.prog.ImportedPackage("errors")
	t := pkg.Type("errorString").Type()
	var cell value = structure{msg}
	return iface{t: types.NewPointer(t), v: &cell}
}

func init() {
	intrinsics["strconv.FormatUint"] = func(fr *frame, a []value) value {
		if s, ok := a[0].(*Sym); ok && asInt64(a[1]) == 10 {
			return fmtstr{v: s}
		}
		return strconv.FormatUint(a[0].(uint64), int(asInt64(a[1])))
	}
	intrinsics["strconv.FormatInt"] = func(fr *frame, a []value) value {
		if s, ok := a[0].(*Sym); ok && asInt64(a[1]) == 10 {
			return fmtstr{v: s, signed: true}
		}
		return strconv.FormatInt(a[0].(int64), int(asInt64(a[1])))
	}
	intrinsics["strconv.Itoa"] = func(fr *frame, a []value) value {
		if s, ok := a[0].(*Sym); ok {
			return fmtstr{v: s, signed: true}
		}
		return strconv.Itoa(a[0].(int))
	}
	// ParseUint/ParseInt/Atoi: decimal strings of symbolic integers parse back to the integer
	// (strconv's parse∘format = id); everything else runs the real strconv code.
	intrinsics["strconv.ParseUint"] = func(fr *frame, a []value) value {
		if f, ok := a[0].(fmtstr); ok && !f.signed && asInt64(a[1]) == 10 && asInt64(a[2]) == 64 {
			return tuple{value(f.v), iface{}}
		}
		if s, ok := a[0].(string); ok {
			v, err := strconv.ParseUint(s, int(asInt64(a[1])), int(asInt64(a[2])))
			if err == nil {
				return tuple{v, iface{}}
			}
		}
		return callBody(fr, "strconv", "ParseUint", a)
	}
	intrinsics["strconv.ParseInt"] = func(fr *frame, a []value) value {
		if f, ok := a[0].(fmtstr); ok && f.signed && asInt64(a[1]) == 10 && asInt64(a[2]) == 64 {
			return tuple{symVal(f.v.T, types.Int64), iface{}}
		}
		if s, ok := a[0].(string); ok {
			v, err := strconv.ParseInt(s, int(asInt64(a[1])), int(asInt64(a[2])))
			if err == nil {
				return tuple{v, iface{}}
			}
		}
		return callBody(fr, "strconv", "ParseInt", a)
	}
	intrinsics["strconv.Quote"] = func(fr *frame, a []value) value { return strconv.Quote(goStr(a[0], "Quote")) }

	intrinsics["internal/bytealg.IndexByte"] = func(fr *frame, a []value) value { return indexByte(a[0].([]value), a[1]) }
	intrinsics["internal/bytealg.IndexByteString"] = func(fr *frame, a []value) value { return indexByte(strBytes(a[0]), a[1]) }
	intrinsics["internal/bytealg.LastIndexByteString"] = func(fr *frame, a []value) value {
		b := strBytes(a[0])
		for i := len(b) - 1; i >= 0; i-- {
			if truth(eqv(types.Typ[types.Uint8], b[i], a[1]), "LastIndexByte") {
				return i
			}
		}
		return -1
	}
	intrinsics["internal/bytealg.LastIndexByte"] = func(fr *frame, a []value) value {
		b := a[0].([]value)
		for i := len(b) - 1; i >= 0; i-- {
			if truth(eqv(types.Typ[types.Uint8], b[i], a[1]), "LastIndexByte") {
				return i
			}
		}
		return -1
	}
	intrinsics["internal/bytealg.CountString"] = func(fr *frame, a []value) value { return countByte(strBytes(a[0]), a[1]) }
	intrinsics["internal/bytealg.Count"] = func(fr *frame, a []value) value { return countByte(a[0].([]value), a[1]) }
	intrinsics["internal/bytealg.Equal"] = func(fr *frame, a []value) value {
		return truth(strEq(mkStr(a[0].([]value)), mkStr(a[1].([]value))), "bytes.Equal")
	}
	intrinsics["bytes.Equal"] = intrinsics["internal/bytealg.Equal"]
	intrinsics["internal/bytealg.Compare"] = func(fr *frame, a []value) value {
		x, y := mkStr(a[0].([]value)), mkStr(a[1].([]value))
		if truth(strEq(x, y), "bytes.Compare") {
			return 0
		}
		if truth(strLess(x, y), "bytes.Compare") {
			return -1
		}
		return 1
	}
	intrinsics["internal/bytealg.MakeNoZero"] = func(fr *frame, a []value) value {
		n := int(asInt64(a[0]))
		if n > R.cfg.MaxAlloc {
			panic(runAbort{"allocation beyond engine bound"})
		}
		s := make([]value, n)
		for i := range s {
			s[i] = uint8(0)
		}
		return s
	}
	intrinsics["internal/bytealg.IndexString"] = func(fr *frame, a []value) value { return indexStr(strBytes(a[0]), strBytes(a[1])) }
	intrinsics["internal/bytealg.Index"] = func(fr *frame, a []value) value { return indexStr(a[0].([]value), a[1].([]value)) }
	intrinsics["internal/bytealg.Cutover"] = func(fr *frame, a []value) value { return 1 << 30 }
	intrinsics["internal/stringslite.Index"] = func(fr *frame, a []value) value { return indexStr(strBytes(a[0]), strBytes(a[1])) }
	intrinsics["strings.Index"] = intrinsics["internal/stringslite.Index"]
	intrinsics["strings.IndexByte"] = intrinsics["internal/bytealg.IndexByteString"]
	intrinsics["internal/stringslite.IndexByte"] = intrinsics["internal/bytealg.IndexByteString"]

	intrinsics["(*strings.Builder).String"] = func(fr *frame, a []value) value {
		st := (*ptrArg(a[0])).(structure)
		return mkStr(st[1].([]value))
	}
	intrinsics["(*strings.Builder).copyCheck"] = func(fr *frame, a []value) value { return nil }
	intrinsics["(*strings.Builder).grow"] = func(fr *frame, a []value) value { return nil }
	intrinsics["(*strings.Builder).Grow"] = func(fr *frame, a []value) value { return nil }
	intrinsics["strings.Clone"] = func(fr *frame, a []value) value { return a[0] }
	intrinsics["internal/stringslite.Clone"] = func(fr *frame, a []value) value { return a[0] }
	intrinsics["internal/abi.NoEscape"] = func(fr *frame, a []value) value { return a[0] }
	intrinsics["internal/race.Enabled"] = func(fr *frame, a []value) value { return false }
	intrinsics["math.Float64frombits"] = func(fr *frame, a []value) value { return math.Float64frombits(uint64(concInt(a[0], "float"))) }
	intrinsics["math.Float64bits"] = func(fr *frame, a []value) value { return math.Float64bits(a[0].(float64)) }
	intrinsics["math.Float32frombits"] = func(fr *frame, a []value) value { return math.Float32frombits(uint32(concInt(a[0], "float"))) }
	intrinsics["math.Float32bits"] = func(fr *frame, a []value) value { return math.Float32bits(a[0].(float32)) }
	intrinsics["os.Getenv"] = func(fr *frame, a []value) value { return "" }
	intrinsics["os.LookupEnv"] = func(fr *frame, a []value) value { return tuple{"", false} }
}

// callBody runs the real SSA body of pkg.name, bypassing the intrinsic table.
func callBody(fr *frame, pkg, name string, args []value) value {
	p := I.prog.ImportedPackage(pkg)
	if p == nil {
		panic(engineErr{"package not loaded: " + pkg})
	}
	fn := p.Func(name)
	saved := intrinsicCache[fn]
	delete(intrinsicCache, fn)
	intrinsicMiss[fn] = true
	defer func() {
		delete(intrinsicMiss, fn)
		if saved != nil {
			intrinsicCache[fn] = saved
		}
	}()
	return callSSA(fr, fn, args, nil)
}

func indexByte(b []value, c value) value {
	for i := range b {
		if truth(eqv(types.Typ[types.Uint8], b[i], c), "IndexByte") {
			return i
		}
	}
	return -1
}

func countByte(b []value, c value) value {
	n := 0
	for i := range b {
		if truth(eqv(types.Typ[types.Uint8], b[i], c), "Count") {
			n++
		}
	}
	return n
}

func indexStr(s, sub []value) value {
	for i := 0; i+len(sub) <= len(s); i++ {
		if truth(strEq(mkStr(s[i:i+len(sub)]), mkStr(sub)), "Index") {
			return i
		}
	}
	return -1
}
