package main

// gose: symbolic execution of go/ssa for the Frugal verification harnesses.
//
//   gose run -dir /repo/lib/go -overlay dir -entry VerifX [-entry ...] [bounds...] -out result.json
//
// For every entry function the decision tree is explored exhaustively (DFS by
// re-execution); results are written as JSON for the vcheck driver.

import (
	"bufio"
	"encoding/json"
	"flag"
	"fmt"
	"go/types"
	"io"
	"os"
	"os/exec"
	"path/filepath"
	"runtime"
	"sort"
	"strings"
	"sync"
	"time"

	"golang.org/x/tools/go/packages"
	"golang.org/x/tools/go/ssa"
	"golang.org/x/tools/go/ssa/ssautil"
)

type Config struct {
	Property        string
	Entry           string
	MaxDecisions    int
	MaxConcretize   int
	DurationWitness bool
	Race            bool
	AllMapOrders    bool
	MaxPreempt      int
	MaxSteps        int64
	MaxDepth        int
	MaxAlloc        int
	SmallAlloc      int
	MaxPaths        int
	TimerPreempt    bool
	Trace           bool
	Param           int
	Bound           int
	Par             int
	WorkFile        string
	SliceS          int
	Serve           bool
	UnwindViolation bool
	batch           [][]Decision
	RawArgs         []string
	SolverKind      string
	TimeoutMs       int
	WallLimit       time.Duration
}

type EntryResult struct {
	Entry        string         `json:"entry"`
	Param        int            `json:"param"`
	Paths        int            `json:"paths"`
	Pruned       int            `json:"pruned"`
	Steps        int64          `json:"steps"`
	Exhaustive   bool           `json:"exhaustive"`
	Violations   []Violation    `json:"violations"`
	Events       []string       `json:"events"`
	Reach        []string       `json:"reach"`
	Funcs        map[string]int `json:"funcs"`
	Stubs        map[string]int `json:"stubs"`
	Sat          int            `json:"sat"`
	Unsat        int            `json:"unsat"`
	Unknown      int            `json:"unknown"`
	SolverErrs   int            `json:"solver_errors"`
	SolverTimeS  float64        `json:"solver_time_s"`
	WallS        float64        `json:"wall_s"`
	Asserts      int            `json:"asserts"`
	MaxDecisions int            `json:"max_decisions_seen"`
	Samples      []Sample       `json:"samples"`
	Ghost        []string       `json:"ghost,omitempty"`
	Threads      int            `json:"max_threads"`
	Preempts     int            `json:"max_preemptions"`
	TimerFires   int            `json:"timer_fires"`
	Abstractions int            `json:"abstractions"`
	WorkerWalls  []float64      `json:"worker_walls,omitempty"`
	Leftover     [][]Decision   `json:"leftover,omitempty"`
}

type Sample struct {
	Vector    []uint64 `json:"vector"`
	Decisions string   `json:"decisions"`
	Reach     []string `json:"reach,omitempty"`
}

type multiFlag []string

func (m *multiFlag) String() string     { return strings.Join(*m, ",") }
func (m *multiFlag) Set(s string) error { *m = append(*m, s); return nil }

func main() {
	if len(os.Args) < 2 {
		fmt.Fprintln(os.Stderr, "usage: gose run|pin ...")
		os.Exit(2)
	}
	switch os.Args[1] {
	case "run", "pin":
		os.Exit(cmdRun(os.Args[1], os.Args[2:]))
	case "maprange":
		os.Exit(cmdMapRange(os.Args[2:]))
	default:
		fmt.Fprintln(os.Stderr, "unknown command")
		os.Exit(2)
	}
}

func cmdRun(mode string, args []string) int {
	fs := flag.NewFlagSet("run", flag.ExitOnError)
	dir := fs.String("dir", "/repo/lib/go", "package directory")
	overlayDir := fs.String("overlay", "", "directory with harness files to overlay into -dir")
	var entries multiFlag
	fs.Var(&entries, "entry", "harness entry function (repeatable)")
	out := fs.String("out", "", "result file (JSON)")
	cfg := Config{}
	fs.StringVar(&cfg.Property, "property", "", "property id")
	fs.IntVar(&cfg.MaxDecisions, "max-decisions", 400, "decisions per path (unwinding bound)")
	fs.IntVar(&cfg.MaxConcretize, "max-concretize", 300, "values per concretisation")
	fs.BoolVar(&cfg.DurationWitness, "duration-witness", false, "abstraction: a symbolic duration passed to context.WithTimeout is represented by one witness per sign class")
	fs.BoolVar(&cfg.AllMapOrders, "all-map-orders", false, "every range over every map explores all iteration orders (as verifMapOrder does for one map)")
	fs.BoolVar(&cfg.Race, "race", false, "happens-before data-race monitor on the accesses of the code under test (race.go)")
	fs.IntVar(&cfg.MaxPreempt, "preempt", 0, "delay bound: scheduling deviations (incl. timer firings while threads can run) per path")
	fs.Int64Var(&cfg.MaxSteps, "max-steps", 20000000, "instructions per path")
	fs.IntVar(&cfg.MaxDepth, "max-depth", 400, "call depth")
	fs.IntVar(&cfg.MaxAlloc, "max-alloc", 1<<16, "largest make() the engine materialises")
	fs.IntVar(&cfg.SmallAlloc, "small-alloc", 40, "symbolic make() sizes up to this are enumerated, larger ones represented by one witness")
	fs.IntVar(&cfg.MaxPaths, "max-paths", 200000, "paths per entry")
	fs.BoolVar(&cfg.TimerPreempt, "timer-preempt", true, "timers may fire while threads are runnable")
	fs.BoolVar(&cfg.Trace, "trace", false, "trace instructions")
	fs.IntVar(&cfg.Par, "par", 1, "explore one entry with this many worker processes")
	fs.IntVar(&cfg.SliceS, "slice", 25, "(internal) seconds a worker explores before handing back its remaining work")
	fs.BoolVar(&cfg.UnwindViolation, "unwind-violation", false, "exceeding the unwinding bound is a violation (termination obligations)")
	fs.BoolVar(&cfg.Serve, "serve", false, "(internal) worker mode: batches of prefixes on stdin, results on stdout")
	fs.StringVar(&cfg.WorkFile, "work-file", "", "(internal) explore only the decision prefixes listed in this file")
	fs.IntVar(&cfg.Bound, "bound", 0, "value returned by verifBound() (tier-dependent size bound)")
	fs.IntVar(&cfg.Param, "param", 0, "value returned by verifParam() (used to split an entry over processes)")
	paramList := fs.String("params", "", "comma separated list of -param values, explored one after the other")
	fs.StringVar(&cfg.SolverKind, "solver", "z3", "z3 | z3-new | cvc5")
	fs.IntVar(&cfg.TimeoutMs, "timeout-ms", 10000, "per query")
	wall := fs.Int("wall", 3000, "wall-clock limit per entry (s)")
	vector := fs.String("vector", "", "pin mode: comma separated uint64 vector or @file.json")
	prefixFile := fs.String("prefix", "", "pin mode: decision prefix JSON file")
	workers := fs.Int("workers", 1, "parallel entries")
	tests := fs.Bool("tests", false, "load test files too")
	fs.Parse(args)
	cfg.RawArgs = args
	cfg.WallLimit = time.Duration(*wall) * time.Second

	t0 := time.Now()
	if err := loadProgram(*dir, *overlayDir, *tests); err != nil {
		fmt.Fprintln(os.Stderr, "LOAD-ERROR:", err)
		return 2
	}
	loadS := time.Since(t0).Seconds()

	if cfg.Serve {
		c := cfg
		c.Entry = entries[0]
		serve(&c)
		return 0
	}
	var results []*EntryResult
	if mode == "pin" {
		c := cfg
		c.Entry = entries[0]
		vec := parseVector(*vector)
		var prefix []Decision
		if *prefixFile != "" {
			b, err := os.ReadFile(*prefixFile)
			if err == nil {
				var v Violation
				if json.Unmarshal(b, &v) == nil && len(v.Prefix) > 0 {
					prefix = v.Prefix
					if vec == nil {
						vec = v.Vector
					}
				} else {
					json.Unmarshal(b, &prefix)
				}
			}
		}
		res := pinRun(&c, vec, prefix)
		results = append(results, res)
	} else {
		_ = workers
		var mu sync.Mutex
		params := []int{cfg.Param}
		if *paramList != "" {
			params = nil
			for _, p := range strings.Split(*paramList, ",") {
				var x int
				fmt.Sscan(p, &x)
				params = append(params, x)
			}
		}
		for _, e := range entries {
			for _, p := range params {
				c := cfg
				c.Entry = e
				c.Param = p
				res := explore(&c)
				res.Param = p
				mu.Lock()
				results = append(results, res)
				mu.Unlock()
				if *out != "" {
					writeResults(*out, loadS, results, &cfg)
				}
			}
		}
	}
	if *out != "" {
		writeResults(*out, loadS, results, &cfg)
	} else {
		outv := map[string]interface{}{"load_s": loadS, "entries": results, "property": cfg.Property, "solver": cfg.SolverKind}
		b, _ := json.MarshalIndent(outv, "", " ")
		os.Stdout.Write(b)
		fmt.Println()
	}
	for _, r := range results {
		fmt.Fprintf(os.Stderr, "%s: paths=%d pruned=%d violations=%d events=%d exhaustive=%v sat/unsat/unk=%d/%d/%d wall=%.1fs\n",
			r.Entry, r.Paths, r.Pruned, len(r.Violations), len(r.Events), r.Exhaustive, r.Sat, r.Unsat, r.Unknown, r.WallS)
		for _, v := range r.Violations {
			fmt.Fprintf(os.Stderr, "  VIOL %s | %s | %s | %s\n", v.Kind, v.Label, v.Site, v.Detail)
		}
		for i, e := range r.Events {
			if i < 10 {
				fmt.Fprintf(os.Stderr, "  EVENT %s\n", e)
			}
		}
	}
	return 0
}

func writeResults(path string, loadS float64, results []*EntryResult, cfg *Config) {
	outv := map[string]interface{}{"load_s": loadS, "entries": results, "property": cfg.Property, "solver": cfg.SolverKind}
	b, _ := json.MarshalIndent(outv, "", " ")
	os.WriteFile(path+".tmp", b, 0o644)
	os.Rename(path+".tmp", path)
}

func parseVector(s string) []uint64 {
	if s == "" {
		return nil
	}
	var vec []uint64
	if strings.HasPrefix(s, "@") {
		b, err := os.ReadFile(s[1:])
		if err != nil {
			fmt.Fprintln(os.Stderr, err)
			os.Exit(2)
		}
		var v Violation
		if json.Unmarshal(b, &v) == nil && v.Vector != nil {
			return v.Vector
		}
		json.Unmarshal(b, &vec)
		return vec
	}
	for _, p := range strings.Split(s, ",") {
		var x uint64
		fmt.Sscan(strings.TrimSpace(p), &x)
		vec = append(vec, x)
	}
	return vec
}

// ---- loading ----

func loadProgram(dir, overlayDir string, tests bool) error {
	overlay := map[string][]byte{}
	if overlayDir != "" {
		files, _ := filepath.Glob(filepath.Join(overlayDir, "*.go"))
		for _, f := range files {
			b, err := os.ReadFile(f)
			if err != nil {
				return err
			}
			overlay[filepath.Join(dir, filepath.Base(f))] = b
		}
	}
	cfg := &packages.Config{
		Mode:    packages.LoadAllSyntax,
		Dir:     dir,
		Overlay: overlay,
		Tests:   tests,
		Env:     append(os.Environ(), "GOFLAGS=-mod=mod", "GOPROXY=off", "GOSUMDB=off", "GOTOOLCHAIN=local"),
	}
	pkgs, err := packages.Load(cfg, ".")
	if err != nil {
		return err
	}
	var errs []string
	packages.Visit(pkgs, nil, func(p *packages.Package) {
		for _, e := range p.Errors {
			errs = append(errs, e.Error())
		}
	})
	if len(errs) > 0 {
		if len(errs) > 10 {
			errs = errs[:10]
		}
		return fmt.Errorf("package errors:\n%s", strings.Join(errs, "\n"))
	}
	prog, spkgs := ssautil.AllPackages(pkgs, ssa.InstantiateGenerics|ssa.SanityCheckFunctions&0)
	prog.Build()
	I = &interpreter{prog: prog, sizes: &types.StdSizes{WordSize: 8, MaxAlign: 8}}
	for _, sp := range spkgs {
		if sp != nil {
			I.harnessPkg = sp
			break
		}
	}
	rt := prog.ImportedPackage("runtime")
	if rt == nil {
		return fmt.Errorf("runtime package not loaded")
	}
	I.runtimeErrorString = rt.Type("errorString").Type()
	return nil
}

// ---- one run ----

func newRun(cfg *Config, sol *Solver, prefix []Decision, pinned []uint64) *Run {
	r := &Run{cfg: cfg, sol: sol, prefix: prefix, pinned: pinned}
	r.reach = map[string]bool{}
	r.stubs = map[string]int{}
	r.fnSteps = map[*ssa.Function]int{}
	r.globals = map[*ssa.Global]*value{}
	r.pkgInit = map[*ssa.Package]bool{}
	r.mutexes = map[*value]*mutexState{}
	r.wgs = map[*value]*wgState{}
	r.onces = map[*value]*onceState{}
	r.atomicVals = map[*value]value{}
	r.timerOf = map[*value]*timer{}
	r.finished = make(chan struct{})
	if cfg.Race {
		r.raceInit()
	}
	if pinned != nil {
		r.pinEnv = map[string]uint64{}
	}
	r.mdl = map[string]uint64{}
	r.mdlOK = true
	return r
}

// execute runs the entry function to completion under r.
func (r *Run) execute(fn *ssa.Function) {
	R = r
	if r.sol != nil {
		r.sol.beginRun(r.prefix)
	}
	main := r.newThread("main:" + fn.Name())
	r.cur = main
	r.startThread(main, func() {
		call(nil, 0, fn, nil)
	})
	main.resume <- struct{}{}
	<-r.finished
	// release every parked thread so its goroutine exits
	for _, t := range r.threads {
		if !t.done {
			select {
			case t.resume <- struct{}{}:
			default:
			}
		}
	}
	r.wg.Wait()
	switch p := r.endPanic.(type) {
	case nil:
	case runAbort:
	case engineErr:
		r.event("ENGINE: %s", p.msg)
	default:
		r.event("ENGINE: unexpected host panic %T: %v", p, p)
	}
}

func entryFunc(name string) (*ssa.Function, error) {
	fn := I.harnessPkg.Func(name)
	if fn == nil {
		return nil, fmt.Errorf("entry %s not found in %s", name, I.harnessPkg.Pkg.Path())
	}
	return fn, nil
}

func explore(cfg *Config) *EntryResult {
	res := &EntryResult{Entry: cfg.Entry, Funcs: map[string]int{}, Stubs: map[string]int{}}
	t0 := time.Now()
	fn, err := entryFunc(cfg.Entry)
	if err != nil {
		res.Events = append(res.Events, "ENGINE: "+err.Error())
		return res
	}
	sol, err := newSolver(cfg.SolverKind, cfg.TimeoutMs)
	if err != nil {
		res.Events = append(res.Events, "ENGINE: solver: "+err.Error())
		return res
	}
	defer sol.close()
	work := [][]Decision{nil}
	if cfg.WorkFile != "" {
		b, err := os.ReadFile(cfg.WorkFile)
		if err != nil || json.Unmarshal(b, &work) != nil {
			res.Events = append(res.Events, "ENGINE: cannot read work file")
			return res
		}
	}
	if cfg.batch != nil {
		work = cfg.batch
	}
	sliced := cfg.batch != nil || cfg.WorkFile != ""
	splitting := cfg.Par > 1 && !sliced
	reach := map[string]bool{}
	seenViol := map[string]bool{}
	evSeen := map[string]bool{}
	res.Exhaustive = true
	for len(work) > 0 {
		if res.Paths+res.Pruned >= cfg.MaxPaths {
			res.Events = append(res.Events, fmt.Sprintf("PATH-LIMIT: %d paths explored, %d prefixes left", res.Paths, len(work)))
			res.Exhaustive = false
			break
		}
		if time.Since(t0) > cfg.WallLimit {
			res.Events = append(res.Events, fmt.Sprintf("WALL-LIMIT: %d paths explored, %d prefixes left", res.Paths, len(work)))
			res.Exhaustive = false
			break
		}
		if sliced && time.Since(t0) > time.Duration(cfg.SliceS)*time.Second {
			res.Leftover = work
			break
		}
		if splitting && len(work) >= 60*cfg.Par {
			exploreParallel(cfg, work, res, reach, seenViol, evSeen)
			work = nil
			break
		}
		var prefix []Decision
		if splitting {
			// breadth first while collecting a frontier to distribute
			prefix = work[0]
			work = work[1:]
		} else {
			prefix = work[len(work)-1]
			work = work[:len(work)-1]
		}
		r := newRun(cfg, sol, prefix, nil)
		r.execute(fn)
		work = append(work, r.pending...)
		if r.pruned {
			res.Pruned++
		} else {
			res.Paths++
		}
		res.Steps += r.steps
		res.Asserts += r.asserts
		if len(r.decs) > res.MaxDecisions {
			res.MaxDecisions = len(r.decs)
		}
		if len(r.threads) > res.Threads {
			res.Threads = len(r.threads)
		}
		if r.preempts > res.Preempts {
			res.Preempts = r.preempts
		}
		res.TimerFires += r.timerFires
		res.Abstractions += r.abstractions
		for f, n := range r.fnSteps {
			res.Funcs[f.String()] += n
		}
		for s, n := range r.stubs {
			res.Stubs[s] += n
		}
		for l := range r.reach {
			reach[l] = true
		}
		for _, v := range r.violations {
			if !seenViol[v.Fp] {
				seenViol[v.Fp] = true
				res.Violations = append(res.Violations, v)
			}
		}
		for _, e := range r.events {
			res.Exhaustive = false
			if !evSeen[e] && len(res.Events) < 50 {
				evSeen[e] = true
				res.Events = append(res.Events, e)
			}
		}
		// path witnesses for the native differential run: completed, non-violating paths only
		if !r.pruned && len(r.violations) == 0 && len(res.Samples) < 5 && len(r.events) == 0 && (res.Paths < 3 || res.Paths%97 == 0) {
			if vec, ok := r.model(nil); ok {
				res.Samples = append(res.Samples, Sample{Vector: vec, Decisions: decString(r.decs), Reach: sortedKeys(r.reach)})
			}
		}
	}
	res.Reach = sortedKeys(reach)
	res.Sat += sol.nSat
	res.Unsat += sol.nUnsat
	res.Unknown += sol.nUnknown
	res.SolverErrs += sol.nErr
	res.SolverTimeS += sol.solveTime.Seconds()
	res.WallS = time.Since(t0).Seconds()
	sort.Slice(res.Violations, func(i, j int) bool { return res.Violations[i].Fp < res.Violations[j].Fp })
	return res
}

// exploreParallel distributes the frontier dynamically over cfg.Par persistent
// worker processes (each loads the program once) and merges their results.
func exploreParallel(cfg *Config, work [][]Decision, res *EntryResult, reach, seenViol, evSeen map[string]bool) {
	n := cfg.Par
	var base []string
	skip := map[string]bool{"-entry": true, "-params": true, "-param": true, "-out": true, "-par": true, "-work-file": true}
	for i := 0; i < len(cfg.RawArgs); i++ {
		a := cfg.RawArgs[i]
		name := a
		if k := strings.Index(a, "="); k >= 0 {
			name = a[:k]
		}
		if strings.HasPrefix(name, "--") {
			name = name[1:]
		}
		if skip[name] {
			if !strings.Contains(a, "=") {
				i++
			}
			continue
		}
		base = append(base, a)
	}
	type reply struct {
		w   int
		res *EntryResult
		err error
	}
	type worker struct {
		cmd *exec.Cmd
		in  io.WriteCloser
		out *bufio.Reader
	}
	workers := make([]*worker, n)
	replies := make(chan reply, n)
	for i := 0; i < n; i++ {
		args := append([]string{"run"}, base...)
		args = append(args, "-entry", cfg.Entry, "-param", fmt.Sprint(cfg.Param), "-serve")
		cmd := exec.Command(os.Args[0], args...)
		in, _ := cmd.StdinPipe()
		outp, _ := cmd.StdoutPipe()
		if err := cmd.Start(); err != nil {
			res.Events = append(res.Events, "ENGINE: cannot start worker: "+err.Error())
			res.Exhaustive = false
			return
		}
		workers[i] = &worker{cmd: cmd, in: in, out: bufio.NewReaderSize(outp, 1<<20)}
	}
	defer func() {
		for _, w := range workers {
			w.in.Close()
			w.cmd.Wait()
		}
	}()
	send := func(i int, batch [][]Decision) {
		b, _ := json.Marshal(batch)
		go func() {
			w := workers[i]
			if _, err := w.in.Write(append(b, '\n')); err != nil {
				replies <- reply{w: i, err: err}
				return
			}
			line, err := w.out.ReadBytes('\n')
			if err != nil {
				replies <- reply{w: i, err: err}
				return
			}
			var r EntryResult
			if err := json.Unmarshal(line, &r); err != nil {
				replies <- reply{w: i, err: err}
				return
			}
			replies <- reply{w: i, res: &r}
		}()
	}
	idle := make([]int, 0, n)
	for i := 0; i < n; i++ {
		idle = append(idle, i)
	}
	busy := 0
	lost := 0
	for len(work) > 0 || busy > 0 {
		for len(work) > 0 && len(idle) > 0 {
			k := len(work) / (2 * n)
			if k < 1 {
				k = 1
			}
			if k > 400 {
				k = 400
			}
			batch := work[len(work)-k:]
			work = work[:len(work)-k]
			w := idle[len(idle)-1]
			idle = idle[:len(idle)-1]
			send(w, batch)
			busy++
		}
		rp := <-replies
		busy--
		if rp.err != nil {
			lost++
			res.Events = append(res.Events, fmt.Sprintf("ENGINE: worker %d failed: %v", rp.w, rp.err))
			res.Exhaustive = false
			continue // worker is not reused
		}
		idle = append(idle, rp.w)
		c := rp.res
		work = append(work, c.Leftover...)
		res.WorkerWalls = append(res.WorkerWalls, c.WallS)
		res.Paths += c.Paths
		res.Pruned += c.Pruned
		res.Steps += c.Steps
		res.Asserts += c.Asserts
		res.Sat += c.Sat
		res.Unsat += c.Unsat
		res.Unknown += c.Unknown
		res.SolverErrs += c.SolverErrs
		res.SolverTimeS += c.SolverTimeS
		res.TimerFires += c.TimerFires
		res.Abstractions += c.Abstractions
		if c.MaxDecisions > res.MaxDecisions {
			res.MaxDecisions = c.MaxDecisions
		}
		if c.Threads > res.Threads {
			res.Threads = c.Threads
		}
		if c.Preempts > res.Preempts {
			res.Preempts = c.Preempts
		}
		if !c.Exhaustive {
			res.Exhaustive = false
		}
		for f, k := range c.Funcs {
			res.Funcs[f] += k
		}
		for f, k := range c.Stubs {
			res.Stubs[f] += k
		}
		for _, l := range c.Reach {
			reach[l] = true
		}
		for _, v := range c.Violations {
			if !seenViol[v.Fp] {
				seenViol[v.Fp] = true
				res.Violations = append(res.Violations, v)
			}
		}
		for _, e := range c.Events {
			if !evSeen[e] && len(res.Events) < 50 {
				evSeen[e] = true
				res.Events = append(res.Events, e)
			}
		}
		if len(res.Samples) < 5 {
			res.Samples = append(res.Samples, c.Samples...)
		}
		if len(idle) == 0 && busy == 0 {
			res.Events = append(res.Events, "ENGINE: all workers lost")
			res.Exhaustive = false
			return
		}
	}
}

// serve is the worker loop: read a batch of prefixes, explore for one time slice, reply.
func serve(cfg *Config) {
	runtime.GOMAXPROCS(1)
	in := bufio.NewReaderSize(os.Stdin, 1<<20)
	out := bufio.NewWriter(os.Stdout)
	for {
		line, err := in.ReadBytes('\n')
		if err != nil {
			return
		}
		var batch [][]Decision
		if err := json.Unmarshal(line, &batch); err != nil {
			return
		}
		c := *cfg
		c.batch = batch
		r := explore(&c)
		b, _ := json.Marshal(r)
		out.Write(b)
		out.WriteByte('\n')
		out.Flush()
	}
}

func decString(ds []Decision) string {
	var sb strings.Builder
	for i, d := range ds {
		if i > 0 {
			sb.WriteByte(' ')
		}
		if d.Kind == "conc" {
			fmt.Fprintf(&sb, "conc=%d", d.Val)
		} else {
			fmt.Fprintf(&sb, "%s:%d", d.Kind, d.Choice)
		}
		if sb.Len() > 400 {
			sb.WriteString(" …")
			break
		}
	}
	return sb.String()
}

// pinRun executes one path with all nondeterministic values fixed (no solver).
func pinRun(cfg *Config, vec []uint64, prefix []Decision) *EntryResult {
	res := &EntryResult{Entry: cfg.Entry, Funcs: map[string]int{}, Stubs: map[string]int{}}
	fn, err := entryFunc(cfg.Entry)
	if err != nil {
		res.Events = append(res.Events, "ENGINE: "+err.Error())
		return res
	}
	if vec == nil {
		vec = []uint64{}
	}
	// keep only scheduling-type decisions: data decisions are determined by the vector
	var sp []Decision
	for _, d := range prefix {
		if d.Kind == "sched" || d.Kind == "sel" || d.Kind == "ord" {
			sp = append(sp, d)
		}
	}
	r := newRun(cfg, nil, sp, vec)
	r.execute(fn)
	res.Paths = 1
	res.Steps = r.steps
	res.Violations = r.violations
	res.Events = r.events
	res.Reach = sortedKeys(r.reach)
	res.Ghost = r.ghost
	for s, n := range r.stubs {
		res.Stubs[s] += n
	}
	return res
}
