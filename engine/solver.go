package main

// One long-lived solver process per engine process, driven over a pipe.

import (
	"bufio"
	"fmt"
	"io"
	"os"
	"os/exec"
	"regexp"
	"strconv"
	"strings"
	"time"
)

type Solver struct {
	cmd      *exec.Cmd
	in       io.WriteCloser
	out      *bufio.Reader
	defs     *defTable
	stack    []Decision // decisions whose scopes are currently pushed
	shared   int        // levels retained from the previous run
	cur      int        // levels entered by the current run
	baseSent bool
	pending  strings.Builder
	kind     string // "z3", "z3-new", "cvc5"
	timeout  int    // ms

	nSat, nUnsat, nUnknown, nErr int
	solveTime                    time.Duration
	lastErr                      string
}

func newSolver(kind string, timeoutMs int) (*Solver, error) {
	var cmd *exec.Cmd
	switch kind {
	case "z3", "z3-new":
		cmd = exec.Command(kind, "-in")
	case "cvc5":
		cmd = exec.Command("cvc5", "--incremental", "--produce-models", "--lang=smt2", fmt.Sprintf("--tlimit-per=%d", timeoutMs))
	default:
		return nil, fmt.Errorf("unknown solver %s", kind)
	}
	in, err := cmd.StdinPipe()
	if err != nil {
		return nil, err
	}
	outp, err := cmd.StdoutPipe()
	if err != nil {
		return nil, err
	}
	cmd.Stderr = cmd.Stdout
	if err := cmd.Start(); err != nil {
		return nil, err
	}
	s := &Solver{cmd: cmd, in: in, out: bufio.NewReaderSize(outp, 1<<16), kind: kind, timeout: timeoutMs}
	s.reset()
	return s, nil
}

func (s *Solver) close() {
	if s == nil || s.cmd == nil {
		return
	}
	s.in.Close()
	s.cmd.Process.Kill()
	s.cmd.Wait()
}

// reset drops everything the solver knows.
func (s *Solver) reset() {
	s.pending.Reset()
	if s.defs != nil {
		s.pending.WriteString("(reset)\n")
	}
	s.defs = newDefTable()
	s.stack = nil
	s.shared, s.cur, s.baseSent = 0, 0, false
	if s.kind != "cvc5" {
		fmt.Fprintf(&s.pending, "(set-option :timeout %d)\n", s.timeout)
	}
	s.pending.WriteString("(set-logic QF_ABV)\n")
}

func sameDecision(a, b Decision) bool {
	if a.Kind != b.Kind || a.Choice != b.Choice || a.Val != b.Val {
		return false
	}
	return !(a.Kind == "conc" && a.Choice == 1)
}

// beginRun keeps the scopes of the longest decision prefix shared with the
// previous run and pops the rest.
func (s *Solver) beginRun(prefix []Decision) {
	j := 0
	for j < len(s.stack) && j < len(prefix) && sameDecision(s.stack[j], prefix[j]) {
		j++
	}
	if n := len(s.stack) - j; n > 0 {
		fmt.Fprintf(&s.pending, "(pop %d)\n", n)
		s.defs.popTo(j)
	}
	s.stack = s.stack[:j]
	s.shared = j
	s.cur = 0
}

// enter opens the scope of decision number idx of the current run.
func (s *Solver) enter(idx int, d Decision) {
	s.cur = idx + 1
	if idx < s.shared {
		return
	}
	s.baseSent = true
	s.pending.WriteString("(push 1)\n")
	s.stack = append(s.stack[:idx], d)
}

func (s *Solver) live() bool {
	return s.cur > s.shared || (s.cur == 0 && !s.baseSent)
}

func (s *Solver) assert(t *Term) {
	if t.isConst() && t.val == 1 {
		return
	}
	if !s.live() {
		return
	}
	emitDefs(t, s.defs, s.cur, &s.pending)
	fmt.Fprintf(&s.pending, "(assert %s)\n", t.ref())
}

// roundTrip sends the pending text plus cmd and returns output lines up to the marker.
func (s *Solver) roundTrip(cmd string) []string {
	s.pending.WriteString(cmd)
	s.pending.WriteString("\n(echo \"@@done\")\n")
	text := s.pending.String()
	s.pending.Reset()
	t0 := time.Now()
	if dumpFile != nil {
		dumpFile.WriteString(text)
	}
	if _, err := io.WriteString(s.in, text); err != nil {
		s.nErr++
		s.lastErr = "write: " + err.Error()
		return []string{"(error \"solver pipe closed\")"}
	}
	var lines []string
	for {
		line, err := s.out.ReadString('\n')
		line = strings.TrimSpace(line)
		if line == "@@done" || line == "\"@@done\"" {
			break
		}
		if line != "" {
			lines = append(lines, line)
		}
		if err != nil {
			s.nErr++
			s.lastErr = "read: " + err.Error()
			lines = append(lines, "(error \"solver died\")")
			break
		}
	}
	s.solveTime += time.Since(t0)
	return lines
}

var dumpFile *os.File

func init() {
	if p := os.Getenv("GOSE_DUMP"); p != "" {
		dumpFile, _ = os.Create(p)
	}
}

type satResult int

const (
	resUnsat satResult = iota
	resSat
	resUnknown
)

func (r satResult) String() string { return [...]string{"unsat", "sat", "unknown"}[r] }

// check asks whether (asserted stuff) ∧ extra is satisfiable. extra may be nil.
func (s *Solver) check(extra *Term) satResult {
	cmd := "(check-sat)"
	if extra != nil {
		if extra.isConst() {
			if extra.val == 0 {
				return resUnsat
			}
		} else {
			emitDefs(extra, s.defs, s.cur, &s.pending)
			cmd = fmt.Sprintf("(check-sat-assuming (%s))", extra.ref())
		}
	}
	lines := s.roundTrip(cmd)
	res := resUnknown
	bad := false
	for _, l := range lines {
		switch {
		case l == "sat":
			res = resSat
		case l == "unsat":
			res = resUnsat
		case l == "unknown":
			res = resUnknown
		case strings.HasPrefix(l, "(error"):
			bad = true
			s.lastErr = l
		}
	}
	if bad {
		s.nErr++
		res = resUnknown
	}
	switch res {
	case resSat:
		s.nSat++
	case resUnsat:
		s.nUnsat++
	default:
		s.nUnknown++
	}
	return res
}

var valRe = regexp.MustCompile(`\(\s*([A-Za-z_][A-Za-z0-9_]*)\s+(#x[0-9a-fA-F]+|#b[01]+|true|false)\s*\)`)

// values returns the model values of the named variables; must follow a sat answer.
func (s *Solver) values(names []string) map[string]uint64 {
	res := map[string]uint64{}
	for i := 0; i < len(names); i += 200 {
		j := i + 200
		if j > len(names) {
			j = len(names)
		}
		lines := s.roundTrip("(get-value (" + strings.Join(names[i:j], " ") + "))")
		txt := strings.Join(lines, " ")
		for _, m := range valRe.FindAllStringSubmatch(txt, -1) {
			var v uint64
			switch {
			case m[2] == "true":
				v = 1
			case m[2] == "false":
				v = 0
			case strings.HasPrefix(m[2], "#x"):
				v, _ = strconv.ParseUint(m[2][2:], 16, 64)
			default:
				v, _ = strconv.ParseUint(m[2][2:], 2, 64)
			}
			res[m[1]] = v
		}
		if strings.Contains(txt, "(error") {
			s.nErr++
			s.lastErr = txt
		}
	}
	return res
}

// valueOf returns the model value of an arbitrary term; must follow a sat answer.
func (s *Solver) valueOf(t *Term) (uint64, bool) {
	if t.isConst() {
		return t.val, true
	}
	emitDefs(t, s.defs, s.cur, &s.pending)
	lines := s.roundTrip("(get-value (" + t.ref() + "))")
	txt := strings.Join(lines, " ")
	m := regexp.MustCompile(`(#x[0-9a-fA-F]+|#b[01]+|true|false)\s*\)\s*\)\s*$`).FindStringSubmatch(txt)
	if m == nil {
		s.nErr++
		s.lastErr = txt
		return 0, false
	}
	switch {
	case m[1] == "true":
		return 1, true
	case m[1] == "false":
		return 0, true
	case strings.HasPrefix(m[1], "#x"):
		v, _ := strconv.ParseUint(m[1][2:], 16, 64)
		return v, true
	}
	v, _ := strconv.ParseUint(m[1][2:], 2, 64)
	return v, true
}
