package main

// Engine threads (one host goroutine each, exactly one runs), channels, select,
// sync primitives and timers. A context switch happens only at visible
// operations; which thread runs next is a recorded decision.

import (
	"fmt"
	"go/types"
	"sort"
	"strings"
	"sync"

	"golang.org/x/tools/go/ssa"
)

type thread struct {
	id        int
	name      string
	resume    chan struct{}
	done      bool
	guard     func() bool
	blockedOn string
	started   bool
}

type timer struct {
	vc       vclock // race monitor: the creator's clock
	id       int
	deadline int64
	fired    bool
	stopped  bool
	fire     func()
	what     string
}

type chanObj struct {
	id     int
	cap    int
	buf    []value
	closed bool
	recvq  []*waiter
	sendq  []*waiter
}

type waitCase struct {
	ch   *chanObj
	send bool
	val  value
}

type waiter struct {
	th         *thread
	cases      []waitCase
	done       bool
	chosen     int
	val        value
	ok         bool
	closedSend bool
}

func newChan(capacity int) *chanObj {
	if capacity < 0 {
		panic(targetRuntimeError("makechan: size out of range"))
	}
	R.chanSeq++
	return &chanObj{id: R.chanSeq, cap: capacity}
}

// ---- thread life-cycle ----

func (r *Run) newThread(name string) *thread {
	t := &thread{id: len(r.threads), name: name, resume: make(chan struct{}, 1)}
	r.threads = append(r.threads, t)
	return t
}

func spawnThread(fn value, args []value, from string) {
	name := from
	switch f := fn.(type) {
	case *ssa.Function:
		name = f.String()
	case *closure:
		name = f.Fn.String()
	}
	t := R.newThread(name)
	R.raceSpawn(t.id)
	R.startThread(t, func() { call(nil, 0, fn, args) })
}

// startThread creates the host goroutine for t; it runs only when handed the baton.
func (r *Run) startThread(t *thread, body func()) {
	r.wg.Add(1)
	go func() {
		defer r.wg.Done()
		<-t.resume
		if r.over {
			return
		}
		defer func() {
			p := recover()
			t.done = true
			if _, ok := p.(threadKill); ok {
				return
			}
			if p != nil {
				switch q := p.(type) {
				case targetPanic:
					// an uncaught panic in any goroutine terminates the process
					site := r.lastPanicSite
					r.violation("panic", "uncaught panic in goroutine "+shortName(t.name), site, r.lastPanicMsg, nil)
					r.finish(runAbort{"uncaught panic"})
				default:
					r.finish(q)
				}
				return
			}
			if t.id == 0 {
				r.finish(nil)
				return
			}
			// hand the baton to somebody else
			defer func() {
				if p := recover(); p != nil {
					if _, ok := p.(threadKill); ok {
						return
					}
					r.finish(p)
				}
			}()
			r.handOff(t)
		}()
		body()
	}()
}

// finish ends the run (called by the thread holding the baton).
func (r *Run) finish(p interface{}) {
	if r.over {
		return
	}
	r.over = true
	r.endPanic = p
	close(r.finished)
}

// handOff is called by a finished thread: pass control on, never return to it.
func (r *Run) handOff(me *thread) {
	next := r.pickNext(me, true)
	if next == nil {
		return
	}
	r.cur = next
	next.resume <- struct{}{}
}

// enabledOthers lists the runnable threads other than me in round-robin order
// starting after me (the order of the default scheduler).
func (r *Run) enabledOthers(me *thread) []*thread {
	var out []*thread
	n := len(r.threads)
	for k := 1; k <= n; k++ {
		t := r.threads[(me.id+k)%n]
		if t == me || t.done {
			continue
		}
		if t.guard == nil || t.guard() {
			out = append(out, t)
		}
	}
	return out
}

func (r *Run) fireable() []*timer {
	var out []*timer
	var min int64 = -1
	for _, tm := range r.timers {
		if tm.fired || tm.stopped {
			continue
		}
		if min < 0 || tm.deadline < min {
			min = tm.deadline
		}
	}
	for _, tm := range r.timers {
		if !tm.fired && !tm.stopped && tm.deadline == min {
			out = append(out, tm)
		}
	}
	return out
}

// pickNext chooses who runs when `me` cannot (blocked or finished). Firing a
// timer is one of the options. Returns nil after reporting a deadlock / end.
func (r *Run) pickNext(me *thread, finished bool) *thread {
	for {
		if !finished && (me.guard == nil || me.guard()) {
			return me
		}
		en := r.enabledOthers(me)
		tms := r.fireable()
		if !r.cfg.TimerPreempt && len(en) > 0 {
			tms = nil // timers only fire when nothing else can run
		}
		n := len(en) + len(tms)
		if n == 0 {
			r.deadlock(me, finished)
			return nil
		}
		// default: the next runnable thread in round-robin order (a timer only if
		// nothing can run); any other choice spends one unit of the delay budget
		c := 0
		if n > 1 && r.preempts < r.cfg.MaxPreempt {
			conds := make([]*Term, n)
			c = r.choose("sched", "blocked:"+me.blockedOn, conds)
			if c > 0 {
				r.preempts++
			}
		}
		if c < len(en) {
			return en[c]
		}
		r.fireTimer(tms[c-len(en)])
		// a timer firing may have enabled me or somebody else: loop
	}
}

func (r *Run) fireTimer(tm *timer) {
	r.noSched++
	defer func() { r.noSched-- }()
	tm.fired = true
	if tm.deadline > r.now {
		r.now = tm.deadline
	}
	r.timerFires++
	if r.race != nil {
		r.race.override = tm.vc
		if r.race.override == nil {
			r.race.override = vclock{}
		}
		defer func() { r.race.override = nil }()
	}
	tm.fire()
}

func (r *Run) deadlock(me *thread, finished bool) {
	var blocked []string
	for _, t := range r.threads {
		if !t.done {
			blocked = append(blocked, fmt.Sprintf("T%d(%s) on %s", t.id, shortName(t.name), t.blockedOn))
		}
	}
	if finished && r.threads[0].done {
		return
	}
	// main (thread 0) can never finish: all goroutines are asleep
	main := r.threads[0]
	if main.done {
		return
	}
	sort.Strings(blocked)
	r.violation("deadlock", "deadlock: "+main.blockedOn, shortName(main.name), strings.Join(blocked, "; "), nil)
	r.finish(runAbort{"deadlock"})
	panic(threadKill{})
}

func shortName(s string) string {
	if i := strings.LastIndex(s, "/"); i >= 0 {
		return s[i+1:]
	}
	return s
}

// switchTo hands the baton to t and parks the caller until it is resumed.
func (r *Run) switchTo(me, t *thread) {
	if t == me {
		return
	}
	r.cur = t
	t.resume <- struct{}{}
	<-me.resume
	if r.over {
		panic(threadKill{})
	}
}

// schedPoint is called before every visible operation.
func schedPoint(what string) {
	r := R
	me := r.cur
	if len(r.threads) == 1 && len(r.timers) == 0 {
		return
	}
	if r.initPkg != nil || r.noSched > 0 {
		return // package initialisers and scheduler callbacks run atomically
	}
	if r.preempts >= r.cfg.MaxPreempt {
		return
	}
	en := r.enabledOthers(me)
	var tms []*timer
	if r.cfg.TimerPreempt {
		tms = r.fireable()
	}
	n := len(en) + len(tms)
	if n == 0 {
		return
	}
	conds := make([]*Term, n+1)
	c := r.choose("sched", what, conds)
	if c == 0 {
		return
	}
	r.preempts++
	if c-1 < len(en) {
		r.switchTo(me, en[c-1])
		return
	}
	r.fireTimer(tms[c-1-len(en)])
}

// blockUntil parks the current thread until guard() holds.
func blockUntil(guard func() bool, what string) {
	if guard() {
		return
	}
	r := R
	me := r.cur
	me.guard = guard
	me.blockedOn = what
	for !guard() {
		next := r.pickNext(me, false)
		if next == nil {
			panic(threadKill{})
		}
		if next != me {
			r.switchTo(me, next)
		}
	}
	me.guard = nil
	me.blockedOn = ""
}

// ---- channels ----

func asChan(v value) *chanObj {
	c, ok := v.(*chanObj)
	if !ok {
		panic(engineErr{fmt.Sprintf("not a channel: %T", v)})
	}
	return c
}

func (w *waiter) remove() {
	for _, cs := range w.cases {
		if cs.ch == nil {
			continue
		}
		q := &cs.ch.recvq
		if cs.send {
			q = &cs.ch.sendq
		}
		for i, x := range *q {
			if x == w {
				*q = append((*q)[:i:i], (*q)[i+1:]...)
				break
			}
		}
	}
}

func caseIndex(w *waiter, ch *chanObj, send bool) int {
	for i, cs := range w.cases {
		if cs.ch == ch && cs.send == send {
			return i
		}
	}
	return -1
}

func recvReady(c *chanObj) bool {
	return c != nil && (len(c.buf) > 0 || c.closed || len(c.sendq) > 0)
}

func sendReady(c *chanObj) bool {
	return c != nil && (c.closed || len(c.buf) < c.cap || len(c.recvq) > 0)
}

func doRecv(c *chanObj) (value, bool) {
	R.raceSync(c)
	if len(c.buf) > 0 {
		v := c.buf[0]
		c.buf = c.buf[1:]
		if len(c.sendq) > 0 {
			w := c.sendq[0]
			i := caseIndex(w, c, true)
			c.buf = append(c.buf, w.cases[i].val)
			w.chosen, w.done = i, true
			w.remove()
		}
		return v, true
	}
	if len(c.sendq) > 0 {
		w := c.sendq[0]
		i := caseIndex(w, c, true)
		v := w.cases[i].val
		w.chosen, w.done = i, true
		w.remove()
		return v, true
	}
	if c.closed {
		return nil, false
	}
	panic(engineErr{"doRecv on unready channel"})
}

func doSend(c *chanObj, v value) {
	R.raceSync(c)
	if c.closed {
		R.lastPanicMsg = "panic: send on closed channel"
		panic(targetPanic{iface{I.runtimeErrorString, "send on closed channel"}})
	}
	if len(c.recvq) > 0 {
		w := c.recvq[0]
		i := caseIndex(w, c, false)
		w.chosen, w.val, w.ok, w.done = i, v, true, true
		w.remove()
		return
	}
	if len(c.buf) < c.cap {
		c.buf = append(c.buf, v)
		return
	}
	panic(engineErr{"doSend on unready channel"})
}

func chanClose(v value) {
	c := asChan(v)
	schedPoint("close")
	if c == nil {
		panic(targetPanic{iface{I.runtimeErrorString, "close of nil channel"}})
	}
	if c.closed {
		R.lastPanicMsg = "runtime error: close of closed channel"
		panic(targetPanic{iface{I.runtimeErrorString, "close of closed channel"}})
	}
	c.closed = true
	R.raceRelease(c)
	for len(c.recvq) > 0 {
		w := c.recvq[0]
		i := caseIndex(w, c, false)
		w.chosen, w.val, w.ok, w.done = i, nil, false, true
		w.remove()
	}
	for len(c.sendq) > 0 {
		w := c.sendq[0]
		i := caseIndex(w, c, true)
		w.chosen, w.closedSend, w.done = i, true, true
		w.remove()
	}
}

// selectOn implements send/recv/select. Returns chosen case index (-1 = default).
func selectOn(cases []waitCase, blocking bool, what string) (int, value, bool) {
	schedPoint(what)
	var ready []int
	for i, cs := range cases {
		if cs.ch == nil {
			continue
		}
		if cs.send && sendReady(cs.ch) || !cs.send && recvReady(cs.ch) {
			ready = append(ready, i)
		}
	}
	if len(ready) > 0 {
		c := 0
		if len(ready) > 1 {
			c = R.choose("sel", what, make([]*Term, len(ready)))
		}
		i := ready[c]
		if cases[i].send {
			doSend(cases[i].ch, cases[i].val)
			return i, nil, false
		}
		v, ok := doRecv(cases[i].ch)
		return i, v, ok
	}
	if !blocking {
		return -1, nil, false
	}
	w := &waiter{th: R.cur, cases: cases}
	for _, cs := range cases {
		if cs.ch == nil {
			continue
		}
		// race monitor: whoever completes the operation later must see everything this
		// thread did before it started waiting
		R.raceRelease(cs.ch)
		if cs.send {
			cs.ch.sendq = append(cs.ch.sendq, w)
		} else {
			cs.ch.recvq = append(cs.ch.recvq, w)
		}
	}
	desc := what
	blockUntil(func() bool { return w.done }, desc)
	if w.chosen >= 0 && w.chosen < len(cases) && cases[w.chosen].ch != nil {
		R.raceSync(cases[w.chosen].ch) // the party that completed the operation published its clock on the channel
	}
	if w.closedSend {
		panic(targetPanic{iface{I.runtimeErrorString, "send on closed channel"}})
	}
	return w.chosen, w.val, w.ok
}

func chanDesc(c *chanObj) string {
	if c == nil {
		return "nil chan"
	}
	return fmt.Sprintf("chan#%d(cap %d, len %d)", c.id, c.cap, len(c.buf))
}

func chanSend(cv, v value) {
	c := asChan(cv)
	v = copyVal(v)
	selectOn([]waitCase{{ch: c, send: true, val: v}}, true, "send "+chanDesc(c))
}

func chanRecv(cv value, elem types.Type, commaOk bool) value {
	c := asChan(cv)
	_, v, ok := selectOn([]waitCase{{ch: c}}, true, "recv "+chanDesc(c))
	if !ok || v == nil {
		if !ok {
			v = zero(elem)
		}
	}
	if commaOk {
		return tuple{v, ok}
	}
	return v
}

func doSelect(fr *frame, instr *ssa.Select) value {
	cases := make([]waitCase, len(instr.States))
	var names []string
	for i, st := range instr.States {
		c := asChan(fr.get(st.Chan))
		cases[i] = waitCase{ch: c, send: st.Dir == types.SendOnly}
		if cases[i].send {
			cases[i].val = fr.get(st.Send)
		}
		names = append(names, chanDesc(c))
	}
	chosen, v, ok := selectOn(cases, instr.Blocking, "select in "+shortName(fr.fn.String())+" ["+strings.Join(names, ",")+"]")
	r := tuple{chosen, ok}
	for i, st := range instr.States {
		if st.Dir == types.RecvOnly {
			var rv value
			if i == chosen && ok {
				rv = v
			} else {
				rv = zero(st.Chan.Type().Underlying().(*types.Chan).Elem())
			}
			r = append(r, rv)
		}
	}
	return r
}

// ---- sync primitives (state kept beside the interpreted struct) ----

type mutexState struct {
	writer  *thread
	readers int
	locked  bool
	waitW   int // writers blocked in Lock: Go's RWMutex lets no NEW reader in while a writer waits
}

type wgState struct{ n int64 }
type onceState struct{ done, running bool }

func (r *Run) mutex(p *value) *mutexState {
	m := r.mutexes[p]
	if m == nil {
		m = &mutexState{}
		r.mutexes[p] = m
	}
	return m
}

func ptrArg(v value) *value {
	p, ok := v.(*value)
	if !ok || p == nil {
		panic(nilDeref())
	}
	return p
}

func mutexLock(p *value, what string) {
	m := R.mutex(p)
	schedPoint(what)
	if m.locked || m.readers > 0 {
		m.waitW++
		blockUntil(func() bool { return !m.locked && m.readers == 0 }, what)
		m.waitW--
	}
	m.locked = true
	m.writer = R.cur
	R.raceAcquire(m)
}

func mutexUnlock(p *value, what string) {
	m := R.mutex(p)
	if !m.locked {
		R.lastPanicMsg = "fatal error: sync: unlock of unlocked mutex"
		R.violation("panic", "fatal: sync: unlock of unlocked mutex", what, "", nil)
		panic(runAbort{"unlock of unlocked mutex"})
	}
	R.raceRelease(m)
	m.locked = false
	m.writer = nil
	// no scheduling point after a release: switching here is equivalent to
	// switching before this thread's next visible operation
}

func mutexRLock(p *value, what string) {
	m := R.mutex(p)
	schedPoint(what)
	// a blocked Lock call excludes new readers (sync.RWMutex documentation): a second RLock
	// by a goroutine that already holds one deadlocks when a writer arrived in between
	blockUntil(func() bool { return !m.locked && m.waitW == 0 }, what)
	m.readers++
	R.raceAcquire(m)
}

func mutexRUnlock(p *value, what string) {
	m := R.mutex(p)
	if m.readers <= 0 {
		R.violation("panic", "fatal: sync: RUnlock of unlocked RWMutex", what, "", nil)
		panic(runAbort{"runlock of unlocked"})
	}
	R.raceRelease(m)
	m.readers--
}

// heldBy reports whether the mutex at p is write-locked (by anyone) / read-locked.
func (r *Run) mutexHeld(p *value) (write bool, read bool) {
	m := r.mutexes[p]
	if m == nil {
		return false, false
	}
	return m.locked, m.readers > 0
}

var hostMu sync.Mutex
