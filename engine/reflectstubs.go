package main

// The subset of package reflect that frugal's middleware.go uses:
// ValueOf, TypeOf, Value.Call, Value.Interface, Value.Type, Type.MethodByName.
// A reflect.Value is the interpreted 3-field struct whose first field holds an
// engine box instead of the *abi.Type.

import (
	"fmt"
	"go/token"
	"go/types"
	"unsafe"

	"golang.org/x/tools/go/ssa"
)

type rbox struct {
	v   value      // the underlying value (not wrapped in an iface unless static type is an interface)
	typ types.Type // static type; nil for the zero Value
}

func mkRValue(v value, t types.Type) value {
	return structure{&rbox{v: v, typ: t}, unsafe.Pointer(nil), uintptr(1)}
}

func rboxOf(v value) *rbox {
	st, ok := v.(structure)
	if !ok || len(st) != 3 {
		panic(engineErr{fmt.Sprintf("reflect.Value expected, got %T", v)})
	}
	b, ok := st[0].(*rbox)
	if !ok {
		return &rbox{} // zero Value
	}
	return b
}

func rtypeIface(t types.Type) value {
	b := &boundIntrinsic{kind: "rtype", data: t}
	b.call = func(fr *frame, method string, args []value) value {
		switch method {
		case "String":
			return t.String()
		case "Name":
			if n, ok := t.(*types.Named); ok {
				return n.Obj().Name()
			}
			return ""
		case "NumIn":
			return t.Underlying().(*types.Signature).Params().Len()
		case "NumOut":
			return t.Underlying().(*types.Signature).Results().Len()
		case "NumMethod":
			return I.prog.MethodSets.MethodSet(t).Len()
		case "MethodByName":
			name := goStr(args[0], "MethodByName")
			ms := I.prog.MethodSets.MethodSet(t)
			sel := ms.Lookup(nil, name)
			if sel == nil {
				// unexported names need the package; try all
				for i := 0; i < ms.Len(); i++ {
					if ms.At(i).Obj().Name() == name {
						sel = ms.At(i)
					}
				}
			}
			if sel == nil {
				return tuple{reflectMethod("", nil, nil, 0), false}
			}
			fn := I.prog.MethodValue(sel)
			return tuple{reflectMethod(name, sel.Type(), fn, 0), true}
		}
		panic(engineErr{"reflect.Type method " + method})
	}
	pkg := I.prog.ImportedPackage("reflect")
	rt := types.NewPointer(pkg.Type("rtype").Type())
	return iface{t: rt, v: b}
}

func reflectMethod(name string, t types.Type, fn *ssa.Function, idx int) value {
	var typ value = iface{}
	if t != nil {
		typ = rtypeIface(t)
	}
	var f value = structure{(*value)(nil), unsafe.Pointer(nil), uintptr(0)}
	if fn != nil {
		f = mkRValue(fn, fn.Signature)
	}
	// struct { Name, PkgPath string; Type Type; Func Value; Index int }
	return structure{name, "", typ, f, idx}
}

func callableSig(fn value) *types.Signature {
	switch f := fn.(type) {
	case *ssa.Function:
		return f.Signature
	case *closure:
		// bound-method closures have the receiver as free variable; the signature is the method's without receiver
		return f.Fn.Signature
	}
	return nil
}

func init() {
	intrinsics["reflect.ValueOf"] = func(fr *frame, a []value) value {
		x := a[0].(iface)
		if x.t == nil {
			return structure{(*value)(nil), unsafe.Pointer(nil), uintptr(0)}
		}
		return mkRValue(x.v, x.t)
	}
	intrinsics["reflect.TypeOf"] = func(fr *frame, a []value) value {
		x := a[0].(iface)
		if x.t == nil {
			return iface{}
		}
		return rtypeIface(x.t)
	}
	intrinsics["(reflect.Value).Type"] = func(fr *frame, a []value) value {
		b := rboxOf(a[0])
		if b.typ == nil {
			panic(targetPanic{iface{types.Typ[types.String], "reflect: call of reflect.Value.Type on zero Value"}})
		}
		return rtypeIface(b.typ)
	}
	intrinsics["(reflect.Value).IsValid"] = func(fr *frame, a []value) value { return rboxOf(a[0]).typ != nil }
	intrinsics["(reflect.Value).Interface"] = func(fr *frame, a []value) value {
		b := rboxOf(a[0])
		if b.typ == nil {
			panic(targetPanic{iface{types.Typ[types.String], "reflect: call of reflect.Value.Interface on zero Value"}})
		}
		if _, ok := b.typ.Underlying().(*types.Interface); ok {
			return b.v // already an iface (possibly nil)
		}
		return iface{t: b.typ, v: b.v}
	}
	intrinsics["(reflect.Value).String"] = func(fr *frame, a []value) value {
		b := rboxOf(a[0])
		if b.typ == nil {
			return "<invalid Value>"
		}
		if s, ok := b.v.(string); ok {
			return s
		}
		return "<" + b.typ.String() + " Value>"
	}
	intrinsics["(reflect.Value).Call"] = func(fr *frame, a []value) value {
		b := rboxOf(a[0])
		sig := callableSig(b.v)
		if sig == nil {
			panic(engineErr{fmt.Sprintf("reflect.Value.Call on %T", b.v)})
		}
		in := a[1].([]value)
		params := sig.Params()
		if len(in) != params.Len() && !sig.Variadic() {
			panic(targetPanic{iface{types.Typ[types.String], fmt.Sprintf("reflect: Call with too %s input arguments", map[bool]string{true: "few", false: "many"}[len(in) < params.Len()])}})
		}
		args := make([]value, len(in))
		for i, rv := range in {
			ab := rboxOf(rv)
			if ab.typ == nil {
				panic(targetPanic{iface{types.Typ[types.String], "reflect: Call using zero Value argument"}})
			}
			pt := params.At(i).Type()
			if _, isIface := pt.Underlying().(*types.Interface); isIface {
				if _, srcIface := ab.typ.Underlying().(*types.Interface); srcIface {
					args[i] = ab.v
				} else {
					if !types.AssignableTo(ab.typ, pt) {
						panic(targetPanic{iface{types.Typ[types.String], fmt.Sprintf("reflect: Call using %s as type %s", ab.typ, pt)}})
					}
					args[i] = iface{t: ab.typ, v: ab.v}
				}
			} else {
				if !types.AssignableTo(ab.typ, pt) {
					panic(targetPanic{iface{types.Typ[types.String], fmt.Sprintf("reflect: Call using %s as type %s", ab.typ, pt)}})
				}
				args[i] = ab.v
			}
		}
		ret := call(fr, token.NoPos, b.v, args)
		results := sig.Results()
		out := make([]value, results.Len())
		switch results.Len() {
		case 0:
		case 1:
			out[0] = mkRValue(ret, results.At(0).Type())
		default:
			tp := ret.(tuple)
			for i := range out {
				out[i] = mkRValue(tp[i], results.At(i).Type())
			}
		}
		return out
	}
	intrinsics["reflect.DeepEqual"] = func(fr *frame, a []value) value {
		return deepEqual(a[0], a[1])
	}
}

// deepEqual is reflect.DeepEqual on interpreted values (bool or *Sym).
func deepEqual(x, y value) value {
	switch a := x.(type) {
	case iface:
		b, ok := y.(iface)
		if !ok {
			return false
		}
		if a.t == nil || b.t == nil {
			return a.t == nil && b.t == nil
		}
		if !types.Identical(a.t, b.t) {
			return false
		}
		return deepEqual(a.v, b.v)
	case *value:
		b, ok := y.(*value)
		if !ok {
			return false
		}
		if a == nil || b == nil {
			return a == b
		}
		if a == b {
			return true
		}
		return deepEqual(*a, *b)
	case []value:
		b, ok := y.([]value)
		if !ok || len(a) != len(b) || (a == nil) != (b == nil) {
			return false
		}
		var acc value = true
		for i := range a {
			acc = andv(acc, deepEqual(a[i], b[i]))
			if acc == false {
				return false
			}
		}
		return acc
	case structure:
		b, ok := y.(structure)
		if !ok || len(a) != len(b) {
			return false
		}
		var acc value = true
		for i := range a {
			acc = andv(acc, deepEqual(a[i], b[i]))
			if acc == false {
				return false
			}
		}
		return acc
	case array:
		b, ok := y.(array)
		if !ok || len(a) != len(b) {
			return false
		}
		var acc value = true
		for i := range a {
			acc = andv(acc, deepEqual(a[i], b[i]))
			if acc == false {
				return false
			}
		}
		return acc
	case *smap:
		b, ok := y.(*smap)
		if !ok || (a == nil) != (b == nil) {
			return false
		}
		if a == nil {
			return true
		}
		if len(a.entries) != len(b.entries) {
			return false
		}
		var acc value = true
		for _, e := range a.entries {
			bv, ok := b.lookup(e.k)
			if !ok {
				return false
			}
			acc = andv(acc, deepEqual(e.v, bv))
			if acc == false {
				return false
			}
		}
		return acc
	}
	return eqv(nil, x, y)
}
