package main

// The subset of package reflect that frugal's middleware.go uses:
// ValueOf, TypeOf, Value.Call, Value.Interface, Value.Type, Type.MethodByName.
// A reflect.Value is the interpreted 3-field struct whose first field holds an
// engine box instead of the *abi.Type.

import (
	"fmt"
	"go/token"
	"go/types"
	"unsafe"

	"golang.org/x/tools/go/ssa"
)

type rbox struct {
	v   value      // the underlying value (not wrapped in an iface unless static type is an interface)
	typ types.Type // static type; nil for the zero Value
}

func mkRValue(v value, t types.Type) value {
	return structure{&rbox{v: v, typ: t}, unsafe.Pointer(nil), uintptr(1)}
}

func rboxOf(v value) *rbox {
	st, ok := v.(structure)
	if !ok || len(st) != 3 {
		panic(engineErr{fmt.Sprintf("reflect.Value expected, got %T", v)})
	}
	b, ok := st[0].(*rbox)
	if !ok {
		return &rbox{} // zero Value
	}
	return b
}

func rtypeIface(t types.Type) value {
	b := &boundIntrinsic{kind: "rtype", data: t}
	b.call = func(fr *frame, method string, args []value) value {
		switch method {
		case "String":
			return t.String()
		case "Name":
			if n, ok := t.(*types.Named); ok {
				return n.Obj().Name()
			}
			return ""
		case "NumIn":
			return t.Underlying().(*types.Signature).Params().Len()
		case "NumOut":
			return t.Underlying().(*types.Signature).Results().Len()
		case "NumMethod":
			return I.prog.MethodSets.MethodSet(t).Len()
		case "Kind":
			return reflectKind(t)
		case "Elem":
			switch u := t.Underlying().(type) {
			case *types.Pointer:
				return rtypeIface(u.Elem())
			case *types.Slice:
				return rtypeIface(u.Elem())
			case *types.Array:
				return rtypeIface(u.Elem())
			case *types.Map:
				return rtypeIface(u.Elem())
			case *types.Chan:
				return rtypeIface(u.Elem())
			}
			panic(targetPanic{iface{types.Typ[types.String], "reflect: Elem of invalid type " + t.String()}})
		case "Key":
			return rtypeIface(t.Underlying().(*types.Map).Key())
		case "In":
			return rtypeIface(t.Underlying().(*types.Signature).Params().At(int(asInt64(args[0]))).Type())
		case "Out":
			return rtypeIface(t.Underlying().(*types.Signature).Results().At(int(asInt64(args[0]))).Type())
		case "IsVariadic":
			return t.Underlying().(*types.Signature).Variadic()
		case "PkgPath":
			if n, ok := t.(*types.Named); ok && n.Obj().Pkg() != nil {
				return n.Obj().Pkg().Path()
			}
			return ""
		case "Comparable":
			return types.Comparable(t)
		case "AssignableTo":
			return types.AssignableTo(t, rtypeOf(args[0]))
		case "ConvertibleTo":
			return types.ConvertibleTo(t, rtypeOf(args[0]))
		case "Implements":
			it, ok := rtypeOf(args[0]).Underlying().(*types.Interface)
			return ok && types.Implements(t, it)
		case "NumField":
			return t.Underlying().(*types.Struct).NumFields()
		case "Len":
			return int(t.Underlying().(*types.Array).Len())
		case "MethodByName":
			name := goStr(args[0], "MethodByName")
			ms := I.prog.MethodSets.MethodSet(t)
			sel := ms.Lookup(nil, name)
			if sel == nil {
				// unexported names need the package; try all
				for i := 0; i < ms.Len(); i++ {
					if ms.At(i).Obj().Name() == name {
						sel = ms.At(i)
					}
				}
			}
			if sel == nil {
				return tuple{reflectMethod("", nil, nil, 0), false}
			}
			fn := I.prog.MethodValue(sel)
			return tuple{reflectMethod(name, sel.Type(), fn, 0), true}
		}
		panic(engineErr{"reflect.Type method " + method})
	}
	pkg := I.prog.ImportedPackage("reflect")
	rt := types.NewPointer(pkg.Type("rtype").Type())
	return iface{t: rt, v: b}
}

func rtypeOf(v value) types.Type {
	it, ok := v.(iface)
	if ok {
		if b, ok := it.v.(*boundIntrinsic); ok && b.kind == "rtype" {
			return b.data.(types.Type)
		}
	}
	panic(engineErr{"reflect.Type expected"})
}

// reflectKind maps a static type to its reflect.Kind number.
func reflectKind(t types.Type) value {
	k := 0
	switch u := t.Underlying().(type) {
	case *types.Basic:
		switch u.Kind() {
		case types.Bool:
			k = 1
		case types.Int:
			k = 2
		case types.Int8:
			k = 3
		case types.Int16:
			k = 4
		case types.Int32:
			k = 5
		case types.Int64:
			k = 6
		case types.Uint:
			k = 7
		case types.Uint8:
			k = 8
		case types.Uint16:
			k = 9
		case types.Uint32:
			k = 10
		case types.Uint64:
			k = 11
		case types.Uintptr:
			k = 12
		case types.Float32:
			k = 13
		case types.Float64:
			k = 14
		case types.Complex64:
			k = 15
		case types.Complex128:
			k = 16
		case types.String:
			k = 24
		case types.UnsafePointer:
			k = 26
		}
	case *types.Array:
		k = 17
	case *types.Chan:
		k = 18
	case *types.Signature:
		k = 19
	case *types.Interface:
		k = 20
	case *types.Map:
		k = 21
	case *types.Pointer:
		k = 22
	case *types.Slice:
		k = 23
	case *types.Struct:
		k = 25
	}
	return uint(k)
}

func isNilValue(v value) bool {
	switch x := v.(type) {
	case *value:
		return x == nil
	case []value:
		return x == nil
	case *smap:
		return x == nil
	case *chanObj:
		return x == nil
	case *ssa.Function:
		return x == nil
	case iface:
		return x.t == nil
	case *closure:
		return x == nil
	}
	return false
}

func reflectMethod(name string, t types.Type, fn *ssa.Function, idx int) value {
	var typ value = iface{}
	if t != nil {
		typ = rtypeIface(t)
	}
	var f value = structure{(*value)(nil), unsafe.Pointer(nil), uintptr(0)}
	if fn != nil {
		f = mkRValue(fn, fn.Signature)
	}
	// struct { Name, PkgPath string; Type Type; Func Value; Index int }
	return structure{name, "", typ, f, idx}
}

func callableSig(fn value) *types.Signature {
	switch f := fn.(type) {
	case *ssa.Function:
		return f.Signature
	case *closure:
		// bound-method closures have the receiver as free variable; the signature is the method's without receiver
		return f.Fn.Signature
	}
	return nil
}

func init() {
	intrinsics["reflect.ValueOf"] = func(fr *frame, a []value) value {
		x := a[0].(iface)
		if x.t == nil {
			return structure{(*value)(nil), unsafe.Pointer(nil), uintptr(0)}
		}
		return mkRValue(x.v, x.t)
	}
	intrinsics["reflect.TypeOf"] = func(fr *frame, a []value) value {
		x := a[0].(iface)
		if x.t == nil {
			return iface{}
		}
		return rtypeIface(x.t)
	}
	intrinsics["(reflect.Value).Type"] = func(fr *frame, a []value) value {
		b := rboxOf(a[0])
		if b.typ == nil {
			panic(targetPanic{iface{types.Typ[types.String], "reflect: call of reflect.Value.Type on zero Value"}})
		}
		return rtypeIface(b.typ)
	}
	intrinsics["(reflect.Value).Kind"] = func(fr *frame, a []value) value {
		b := rboxOf(a[0])
		if b.typ == nil {
			return uint(0)
		}
		return reflectKind(b.typ)
	}
	intrinsics["(reflect.Value).IsNil"] = func(fr *frame, a []value) value {
		b := rboxOf(a[0])
		if b.typ == nil {
			panic(targetPanic{iface{types.Typ[types.String], "reflect: call of reflect.Value.IsNil on zero Value"}})
		}
		return isNilValue(b.v)
	}
	intrinsics["(reflect.Value).IsZero"] = func(fr *frame, a []value) value {
		b := rboxOf(a[0])
		return isNilValue(b.v) || truth(eqv(b.typ, b.v, zero(b.typ)), "reflect.IsZero")
	}
	intrinsics["(reflect.Value).Len"] = func(fr *frame, a []value) value {
		b := rboxOf(a[0])
		switch x := b.v.(type) {
		case []value:
			return len(x)
		case *smap:
			return x.len()
		case string, symstr, fmtstr:
			return strLen(b.v)
		case array:
			return len(x)
		}
		panic(engineErr{"reflect.Value.Len"})
	}
	intrinsics["(reflect.Value).Elem"] = func(fr *frame, a []value) value {
		b := rboxOf(a[0])
		switch u := b.typ.Underlying().(type) {
		case *types.Pointer:
			p := b.v.(*value)
			if p == nil {
				return structure{(*value)(nil), unsafe.Pointer(nil), uintptr(0)}
			}
			return mkRValue(load(u.Elem(), p), u.Elem())
		case *types.Interface:
			it := b.v.(iface)
			if it.t == nil {
				return structure{(*value)(nil), unsafe.Pointer(nil), uintptr(0)}
			}
			return mkRValue(it.v, it.t)
		}
		panic(engineErr{"reflect.Value.Elem"})
	}
	// Pointer / UnsafePointer of a func value is the CODE pointer: equal for every closure
	// made from the same function literal, whatever it captured (Go's documented behaviour)
	codeID := map[*ssa.Function]uintptr{}
	ptrOf := func(fr *frame, a []value) value {
		b := rboxOf(a[0])
		switch x := b.v.(type) {
		case *ssa.Function:
			if x == nil {
				return uintptr(0)
			}
			if _, ok := codeID[x]; !ok {
				codeID[x] = uintptr(0x10000 + 16*len(codeID))
			}
			return codeID[x]
		case *closure:
			if x == nil {
				return uintptr(0)
			}
			if _, ok := codeID[x.Fn]; !ok {
				codeID[x.Fn] = uintptr(0x10000 + 16*len(codeID))
			}
			return codeID[x.Fn]
		}
		panic(engineErr{"reflect.Value.Pointer of a non-func value is outside the reflect model"})
	}
	intrinsics["(reflect.Value).Pointer"] = ptrOf
	intrinsics["(reflect.Value).IsValid"] = func(fr *frame, a []value) value { return rboxOf(a[0]).typ != nil }
	intrinsics["(reflect.Value).Interface"] = func(fr *frame, a []value) value {
		b := rboxOf(a[0])
		if b.typ == nil {
			panic(targetPanic{iface{types.Typ[types.String], "reflect: call of reflect.Value.Interface on zero Value"}})
		}
		if _, ok := b.typ.Underlying().(*types.Interface); ok {
			return b.v // already an iface (possibly nil)
		}
		return iface{t: b.typ, v: b.v}
	}
	intrinsics["(reflect.Value).String"] = func(fr *frame, a []value) value {
		b := rboxOf(a[0])
		if b.typ == nil {
			return "<invalid Value>"
		}
		if s, ok := b.v.(string); ok {
			return s
		}
		return "<" + b.typ.String() + " Value>"
	}
	intrinsics["(reflect.Value).Call"] = func(fr *frame, a []value) value {
		b := rboxOf(a[0])
		sig := callableSig(b.v)
		if sig == nil {
			panic(engineErr{fmt.Sprintf("reflect.Value.Call on %T", b.v)})
		}
		in := a[1].([]value)
		params := sig.Params()
		if len(in) != params.Len() && !sig.Variadic() {
			panic(targetPanic{iface{types.Typ[types.String], fmt.Sprintf("reflect: Call with too %s input arguments", map[bool]string{true: "few", false: "many"}[len(in) < params.Len()])}})
		}
		args := make([]value, len(in))
		for i, rv := range in {
			ab := rboxOf(rv)
			if ab.typ == nil {
				panic(targetPanic{iface{types.Typ[types.String], "reflect: Call using zero Value argument"}})
			}
			pt := params.At(i).Type()
			if _, isIface := pt.Underlying().(*types.Interface); isIface {
				if _, srcIface := ab.typ.Underlying().(*types.Interface); srcIface {
					args[i] = ab.v
				} else {
					if !types.AssignableTo(ab.typ, pt) {
						panic(targetPanic{iface{types.Typ[types.String], fmt.Sprintf("reflect: Call using %s as type %s", ab.typ, pt)}})
					}
					args[i] = iface{t: ab.typ, v: ab.v}
				}
			} else {
				if !types.AssignableTo(ab.typ, pt) {
					panic(targetPanic{iface{types.Typ[types.String], fmt.Sprintf("reflect: Call using %s as type %s", ab.typ, pt)}})
				}
				args[i] = ab.v
			}
		}
		ret := call(fr, token.NoPos, b.v, args)
		results := sig.Results()
		out := make([]value, results.Len())
		switch results.Len() {
		case 0:
		case 1:
			out[0] = mkRValue(ret, results.At(0).Type())
		default:
			tp := ret.(tuple)
			for i := range out {
				out[i] = mkRValue(tp[i], results.At(i).Type())
			}
		}
		return out
	}
	intrinsics["reflect.DeepEqual"] = func(fr *frame, a []value) value {
		return deepEqual(a[0], a[1])
	}
}

// deepEqual is reflect.DeepEqual on interpreted values (bool or *Sym).
func deepEqual(x, y value) value {
	switch a := x.(type) {
	case iface:
		b, ok := y.(iface)
		if !ok {
			return false
		}
		if a.t == nil || b.t == nil {
			return a.t == nil && b.t == nil
		}
		if !types.Identical(a.t, b.t) {
			return false
		}
		return deepEqual(a.v, b.v)
	case *value:
		b, ok := y.(*value)
		if !ok {
			return false
		}
		if a == nil || b == nil {
			return a == b
		}
		if a == b {
			return true
		}
		return deepEqual(*a, *b)
	case []value:
		b, ok := y.([]value)
		if !ok || len(a) != len(b) || (a == nil) != (b == nil) {
			return false
		}
		var acc value = true
		for i := range a {
			acc = andv(acc, deepEqual(a[i], b[i]))
			if acc == false {
				return false
			}
		}
		return acc
	case structure:
		b, ok := y.(structure)
		if !ok || len(a) != len(b) {
			return false
		}
		var acc value = true
		for i := range a {
			acc = andv(acc, deepEqual(a[i], b[i]))
			if acc == false {
				return false
			}
		}
		return acc
	case array:
		b, ok := y.(array)
		if !ok || len(a) != len(b) {
			return false
		}
		var acc value = true
		for i := range a {
			acc = andv(acc, deepEqual(a[i], b[i]))
			if acc == false {
				return false
			}
		}
		return acc
	case *smap:
		b, ok := y.(*smap)
		if !ok || (a == nil) != (b == nil) {
			return false
		}
		if a == nil {
			return true
		}
		if len(a.entries) != len(b.entries) {
			return false
		}
		var acc value = true
		for _, e := range a.entries {
			bv, ok := b.lookup(e.k)
			if !ok {
				return false
			}
			acc = andv(acc, deepEqual(e.v, bv))
			if acc == false {
				return false
			}
		}
		return acc
	}
	return eqv(nil, x, y)
}
