package main

// gose maprange -dir <package dir> [-prefix <import path prefix>]
//
// Lists every `range` over a Go map in the functions of the loaded program whose
// package path starts with the prefix (from go/ssa: *ssa.Range with a map operand).
// Used by the C19 check: a map iteration is the only way the order of a Go map
// can reach generated text, so the set of such sites is the kernel of the
// determinism property; the check fails (inconclusive) when a site appears that
// it does not know.

import (
	"encoding/json"
	"flag"
	"fmt"
	"go/types"
	"os"
	"path/filepath"
	"sort"
	"strings"

	"golang.org/x/tools/go/ssa"
	"golang.org/x/tools/go/ssa/ssautil"
)

func cmdMapRange(args []string) int {
	fs := flag.NewFlagSet("maprange", flag.ExitOnError)
	dir := fs.String("dir", "/repo", "package directory (its dependencies are scanned too)")
	prefix := fs.String("prefix", "github.com/Workiva/frugal/compiler", "import path prefix of the packages to scan")
	out := fs.String("out", "", "result file (JSON)")
	fs.Parse(args)
	if err := loadProgram(*dir, "", false); err != nil {
		fmt.Fprintln(os.Stderr, "LOAD-ERROR:", err)
		return 2
	}
	type site struct {
		Func string `json:"func"`
		File string `json:"file"`
		Line int    `json:"line"`
		Map  string `json:"map_type"`
	}
	var sites []site
	seen := map[string]bool{}
	for fn := range ssautil.AllFunctions(I.prog) {
		root := fn
		for root.Parent() != nil {
			root = root.Parent()
		}
		pkg := ""
		if root.Pkg != nil {
			pkg = root.Pkg.Pkg.Path()
		} else if o := root.Object(); o != nil && o.Pkg() != nil {
			pkg = o.Pkg().Path()
		}
		if !strings.HasPrefix(pkg, *prefix) {
			continue
		}
		for _, b := range fn.Blocks {
			for _, ins := range b.Instrs {
				r, ok := ins.(*ssa.Range)
				if !ok {
					continue
				}
				if _, isMap := r.X.Type().Underlying().(*types.Map); !isMap {
					continue
				}
				p := I.prog.Fset.Position(r.Pos())
				if strings.HasSuffix(p.Filename, "_test.go") || strings.HasPrefix(filepath.Base(p.Filename), "zz_verif") {
					continue
				}
				rel := p.Filename
				if i := strings.Index(rel, "/compiler/"); i >= 0 {
					rel = rel[i+1:]
				}
				key := fmt.Sprintf("%s:%d", rel, p.Line)
				if seen[key] {
					continue
				}
				seen[key] = true
				sites = append(sites, site{Func: fn.String(), File: rel, Line: p.Line, Map: r.X.Type().String()})
			}
		}
	}
	sort.Slice(sites, func(i, j int) bool {
		if sites[i].File != sites[j].File {
			return sites[i].File < sites[j].File
		}
		return sites[i].Line < sites[j].Line
	})
	data, _ := json.MarshalIndent(sites, "", " ")
	if *out != "" {
		os.WriteFile(*out, data, 0o644)
	} else {
		fmt.Println(string(data))
	}
	return 0
}
